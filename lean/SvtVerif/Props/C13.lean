/-
  C13 — the configuration filled in by handle creation is fully determined by the library and is accepted.
  `Gen.Config.initParam` is regenerated from svt_svt_enc_init_parameter on every run; members that the C function
  does not assign keep the caller's value in the model, so these theorems fail to check if one is left out.
-/
import SvtVerif.Lemmas.ConfigDefaults

namespace C13
open Gen.Config CSem Lemmas.Config
set_option maxRecDepth 8000

/-- **Completeness of the defaults.** Whatever the caller's memory contained (any two well-typed prior contents),
    the configuration returned by the library is the same, member for member, array cell for array cell. -/
theorem defaults_total (c1 c2 : Cfg) (h1 : c1.WellTyped) (h2 : c2.WellTyped) : initParam c1 = initParam c2 := by
  unfold initParam
  simp only [set2 _ h1.hme_level0_search_area_in_width_array.1, set2 _ h1.hme_level0_search_area_in_height_array.1,
    set2 _ h1.hme_level1_search_area_in_width_array.1, set2 _ h1.hme_level1_search_area_in_height_array.1,
    set2 _ h1.hme_level2_search_area_in_width_array.1, set2 _ h1.hme_level2_search_area_in_height_array.1,
    set2 _ h2.hme_level0_search_area_in_width_array.1, set2 _ h2.hme_level0_search_area_in_height_array.1,
    set2 _ h2.hme_level1_search_area_in_width_array.1, set2 _ h2.hme_level1_search_area_in_height_array.1,
    set2 _ h2.hme_level2_search_area_in_width_array.1, set2 _ h2.hme_level2_search_area_in_height_array.1]

/-- Non-vacuity: memory filled with 0x00 and with 0xFF are both well-typed prior contents. -/
example : (Cfg.fillByte 0).enc_mode = 0 ∧ (Cfg.fillByte 255).enc_mode = -1 ∧ (Cfg.fillByte 255).qp = 4294967295 := by decide

/-- Every member is assigned by the generated model of the C function (the list is computed by the translator). -/
theorem every_member_assigned : ∀ f ∈ cfgFieldNames, f ∈ initAssigned := by decide

/-- **The defaults are accepted** for every picture size in the accepted range (even, 64..4096 x 64..2160), on a fresh
    handle, and the copy into the sequence control set stays in bounds. -/
theorem defaults_accepted (w h : Int) (hw : 64 ≤ w ∧ w ≤ 4096 ∧ w % 2 = 0) (hh : 64 ≤ h ∧ h ≤ 2160 ∧ h % 2 = 0) :
    setParameterAccepts {} (dfltWH w h) = true ∧ setParameterOob {} (dfltWH w h) = false := by
  constructor
  · rw [accepts_iff_all_rules]
    obtain ⟨e0, e1, e4, e10, e11, e12, e13, e14, e15, e16, e17, e18, e19, e20, e21, e22, e23, e24, e25, e26, e27, e28, e29,
      e30, e31, e32, e33, e34, e35, e36, e37, e38, e39, e40, e41, e42, e43, e44, e45, e46, e47, e48, e49, e50, e51, e52, e53,
      e54, e55, e56, e57, e58, e59, e60, e61, e62, e63, e64, e65, e66, e67, e68, e69, e70, e71, e72, e73, e74, e75, e76, e77,
      e78, e79, e80, e81, e82, e83, e84, e85, e86, e87, e88, e89, e90, e91, e92, e93, e94, e95, e96, e97⟩ := rules_size_free w h
    obtain ⟨k0, k1, k4, k10, k11, k12, k13, k14, k15, k16, k17, k18, k19, k20, k21, k22, k23, k24, k25, k26, k27, k28, k29,
      k30, k31, k32, k33, k34, k35, k36, k37, k38, k39, k40, k41, k42, k43, k44, k45, k46, k47, k48, k49, k50, k51, k52, k53,
      k54, k55, k56, k57, k58, k59, k60, k61, k62, k63, k64, k65, k66, k67, k68, k69, k70, k71, k72, k73, k74, k75, k76, k77,
      k78, k79, k80, k81, k82, k83, k84, k85, k86, k87, k88, k89, k90, k91, k92, k93, k94, k95, k96, k97⟩ := rules_size_free_hold
    have hw0 : (0 : Int) ≤ w % 65536 := Int.emod_nonneg _ (by decide)
    have hh0 : (0 : Int) ≤ h % 65536 := Int.emod_nonneg _ (by decide)
    have ew : w % 65536 = w := Int.emod_eq_of_lt (by omega) (by omega)
    have eh : h % 65536 = h := Int.emod_eq_of_lt (by omega) (by omega)
    have s2 : rej2 {} (dfltWH w h) = false := (rej2_iff _ _).2 (by show 64 ≤ w % 65536; omega)
    have s3 : rej3 {} (dfltWH w h) = false := (rej3_iff _ _).2 (by show 64 ≤ h % 65536; omega)
    have s5 : rej5 {} (dfltWH w h) = false := (rej5_iff _ _).2 (by
      show ¬ (w % 65536 % 8 ≠ 0 ∧ (dfltWH w h).compressed_ten_bit_format = 1)
      intro hc
      have e : (dfltWH w h).compressed_ten_bit_format = 0 := rfl
      rw [e] at hc; exact absurd hc.2 (by decide))
    have s6 : rej6 {} (dfltWH w h) = false := (rej6_iff _ _).2 (by show w % 65536 % 2 = 0; omega)
    have s7 : rej7 {} (dfltWH w h) = false := (rej7_iff _ _).2 (by show h % 65536 % 2 = 0; omega)
    have s8 : rej8 {} (dfltWH w h) = false := (rej8_iff _ _).2 (by show w % 65536 ≤ 4096; omega)
    have s9 : rej9 {} (dfltWH w h) = false := (rej9_iff _ _).2 (by show h % 65536 ≤ 2160; omega)
    exact ⟨e0 ▸ k0, e1 ▸ k1, s2, s3, e4 ▸ k4, s5, s6, s7, s8, s9, e10 ▸ k10, e11 ▸ k11, e12 ▸ k12, e13 ▸ k13, e14 ▸ k14,
      e15 ▸ k15, e16 ▸ k16, e17 ▸ k17, e18 ▸ k18, e19 ▸ k19, e20 ▸ k20, e21 ▸ k21, e22 ▸ k22, e23 ▸ k23, e24 ▸ k24,
      e25 ▸ k25, e26 ▸ k26, e27 ▸ k27, e28 ▸ k28, e29 ▸ k29, e30 ▸ k30, e31 ▸ k31, e32 ▸ k32, e33 ▸ k33, e34 ▸ k34,
      e35 ▸ k35, e36 ▸ k36, e37 ▸ k37, e38 ▸ k38, e39 ▸ k39, e40 ▸ k40, e41 ▸ k41, e42 ▸ k42, e43 ▸ k43, e44 ▸ k44,
      e45 ▸ k45, e46 ▸ k46, e47 ▸ k47, e48 ▸ k48, e49 ▸ k49, e50 ▸ k50, e51 ▸ k51, e52 ▸ k52, e53 ▸ k53, e54 ▸ k54,
      e55 ▸ k55, e56 ▸ k56, e57 ▸ k57, e58 ▸ k58, e59 ▸ k59, e60 ▸ k60, e61 ▸ k61, e62 ▸ k62, e63 ▸ k63, e64 ▸ k64,
      e65 ▸ k65, e66 ▸ k66, e67 ▸ k67, e68 ▸ k68, e69 ▸ k69, e70 ▸ k70, e71 ▸ k71, e72 ▸ k72, e73 ▸ k73, e74 ▸ k74,
      e75 ▸ k75, e76 ▸ k76, e77 ▸ k77, e78 ▸ k78, e79 ▸ k79, e80 ▸ k80, e81 ▸ k81, e82 ▸ k82, e83 ▸ k83, e84 ▸ k84,
      e85 ▸ k85, e86 ▸ k86, e87 ▸ k87, e88 ▸ k88, e89 ▸ k89, e90 ▸ k90, e91 ▸ k91, e92 ▸ k92, e93 ▸ k93, e94 ▸ k94,
      e95 ▸ k95, e96 ▸ k96, e97 ▸ k97⟩
  · have : setParameterOob {} (dfltWH w h) = setParameterOob {} (dfltWH 64 64) := rfl
    rw [this]; decide

/-- Non-vacuity of the size hypotheses. -/
example : (64 : Int) ≤ 1920 ∧ (1920 : Int) ≤ 4096 ∧ (1920 : Int) % 2 = 0 := by decide

/-- The output of `set_parameter` does not depend on the caller's prior memory either: composing the two results. -/
theorem accepted_whatever_the_prior_memory (c : Cfg) (hc : c.WellTyped) (w h : Int)
    (hw : 64 ≤ w ∧ w ≤ 4096 ∧ w % 2 = 0) (hh : 64 ≤ h ∧ h ≤ 2160 ∧ h % 2 = 0) :
    setParameterAccepts {} { initParam c with source_width := w, source_height := h } = true := by
  have hz : (({} : Cfg)).WellTyped := by constructor <;> decide
  have e : initParam c = dflt := defaults_total c {} hc hz
  rw [e]; exact (defaults_accepted w h hw hh).1

/-! ### Documented defaults

The two statements below are a hand transcription of the "Default" column of the parameter tables of
`Docs/svt-av1_encoder_user_guide.md` (lines 144-287 of the pinned commit), for every parameter whose documented default is a
number and that maps to one configuration member (TargetBitRate is documented in kbps, the member is in bps).
`checks/c13.py` re-parses the guide on every run and compares it with the `member = value` conjuncts of these two statements, so
a documentation change shows up as a stale transcription. -/

/-- **Every documented default is the default the library returns**, whatever the caller's memory contained (except for the
    members listed in `doc_default_deviations`). -/
theorem defaults_match_doc (c : Cfg) (hc : c.WellTyped) :
    (initParam c).encoder_color_format = 1 ∧ (initParam c).profile = 0 ∧ (initParam c).frame_rate_numerator = 0 ∧
    (initParam c).frame_rate_denominator = 0 ∧ (initParam c).encoder_bit_depth = 8 ∧
    (initParam c).is_16bit_pipeline = 0 ∧ (initParam c).hierarchical_levels = 4 ∧ (initParam c).pred_structure = 2 ∧
    (initParam c).high_dynamic_range_input = 0 ∧ (initParam c).logical_processors = 0 ∧ (initParam c).unpin = 1 ∧
    (initParam c).target_socket = -1 ∧ (initParam c).rate_control_mode = 0 ∧ (initParam c).qp = 50 ∧
    (initParam c).target_bit_rate = 7000000 ∧ (initParam c).use_qp_file = 0 ∧
    (initParam c).use_fixed_qindex_offsets = 0 ∧ (initParam c).key_frame_qindex_offset = 0 ∧
    (initParam c).key_frame_chroma_qindex_offset = 0 ∧ (initParam c).vbr_bias_pct = 50 ∧
    (initParam c).vbr_min_section_pct = 0 ∧ (initParam c).vbr_max_section_pct = 2000 ∧
    (initParam c).under_shoot_pct = 25 ∧ (initParam c).over_shoot_pct = 25 ∧ (initParam c).recode_loop = 2 ∧
    (initParam c).intra_period_length = -2 ∧ (initParam c).intra_refresh_type = 2 ∧ (initParam c).enc_mode = 8 ∧
    (initParam c).compressed_ten_bit_format = 0 ∧ (initParam c).tile_rows = 0 ∧ (initParam c).tile_columns = 0 ∧
    (initParam c).disable_dlf_flag = 0 ∧ (initParam c).enable_tpl_la = 1 ∧ (initParam c).cdef_level = -1 ∧
    (initParam c).enable_restoration_filtering = -1 ∧ (initParam c).sg_filter_mode = -1 ∧
    (initParam c).wn_filter_mode = -1 ∧ (initParam c).enable_mfmv = -1 ∧ (initParam c).enable_redundant_blk = -1 ∧
    (initParam c).spatial_sse_full_loop_level = -1 ∧ (initParam c).over_bndry_blk = -1 ∧
    (initParam c).new_nearest_comb_inject = -1 ∧ (initParam c).nsq_table = -1 ∧
    (initParam c).frame_end_cdf_update = -1 ∧ (initParam c).set_chroma_mode = -1 ∧
    (initParam c).disable_cfl_flag = -1 ∧ (initParam c).enable_warped_motion = -1 ∧
    (initParam c).enable_global_motion = 1 ∧ (initParam c).pic_based_rate_est = -1 ∧
    (initParam c).intra_angle_delta = -1 ∧ (initParam c).inter_intra_compound = -1 ∧
    (initParam c).enable_paeth = -1 ∧ (initParam c).enable_smooth = -1 ∧ (initParam c).mrp_level = -1 ∧
    (initParam c).obmc_level = -1 ∧ (initParam c).rdoq_level = -1 ∧ (initParam c).filter_intra_level = -1 ∧
    (initParam c).enable_intra_edge_filter = -1 ∧ (initParam c).pred_me = -1 ∧ (initParam c).bipred_3x3_inject = -1 ∧
    (initParam c).compound_level = -1 ∧ (initParam c).use_default_me_hme = 1 ∧ (initParam c).enable_hme_flag = 1 ∧
    (initParam c).enable_hme_level0_flag = 1 ∧ (initParam c).intrabc_mode = -1 ∧ (initParam c).palette_level = -1 ∧
    (initParam c).unrestricted_motion_vector = 1 ∧ (initParam c).speed_control_flag = 0 ∧
    (initParam c).film_grain_denoise_strength = 0 ∧ (initParam c).tf_level = -1 ∧ (initParam c).altref_strength = 5 ∧
    (initParam c).enable_overlays = 0 ∧ (initParam c).active_channel_count = 1 ∧ (initParam c).stat_report = 0 := by
  have hz : (({} : Cfg)).WellTyped := by constructor <;> decide
  rw [defaults_total c {} hc hz]
  repeat' apply And.intro
  all_goals rfl

/-- Where guide and code disagree today: FrameRate (l.150) documented 25, AdaptiveQuantization (l.173) documented 0,
    LookAheadDistance (l.233) documented 33, ScreenContentMode (l.272) documented 0, HighBitDepthModeDecision (l.274) documented 1,
    AltRefNframes (l.283) documented 7.  The library returns the values below; each is a recorded finding
    `C13-docdefault-<member>`.  DOC: frame_rate=25 enable_adaptive_quantization=0 look_ahead_distance=33 screen_content_mode=0 enable_hbd_mode_decision=1 altref_nframes=7 -/
theorem doc_default_deviations (c : Cfg) (hc : c.WellTyped) :
    (initParam c).frame_rate = 1966080 ∧ (initParam c).enable_adaptive_quantization = 2 ∧
    (initParam c).look_ahead_distance = 4294967295 ∧ (initParam c).screen_content_mode = 2 ∧
    (initParam c).enable_hbd_mode_decision = -1 ∧ (initParam c).altref_nframes = 13 := by
  have hz : (({} : Cfg)).WellTyped := by constructor <;> decide
  rw [defaults_total c {} hc hz]
  repeat' apply And.intro
  all_goals rfl

end C13
