/-
  C13 — the configuration filled in by handle creation is fully determined by the library and is accepted.
  `Gen.Config.initParam` is regenerated from svt_svt_enc_init_parameter on every run; members that the C function
  does not assign keep the caller's value in the model, so these theorems fail to check if one is left out.
-/
import SvtVerif.Lemmas.ConfigDefaults

namespace C13
open Gen.Config CSem Lemmas.Config
set_option maxRecDepth 8000

/-- **Completeness of the defaults.** Whatever the caller's memory contained (any two well-typed prior contents),
    the configuration returned by the library is the same, member for member, array cell for array cell. -/
theorem defaults_total (c1 c2 : Cfg) (h1 : c1.WellTyped) (h2 : c2.WellTyped) : initParam c1 = initParam c2 := by
  unfold initParam
  simp only [set2 _ h1.hme_level0_search_area_in_width_array.1, set2 _ h1.hme_level0_search_area_in_height_array.1,
    set2 _ h1.hme_level1_search_area_in_width_array.1, set2 _ h1.hme_level1_search_area_in_height_array.1,
    set2 _ h1.hme_level2_search_area_in_width_array.1, set2 _ h1.hme_level2_search_area_in_height_array.1,
    set2 _ h2.hme_level0_search_area_in_width_array.1, set2 _ h2.hme_level0_search_area_in_height_array.1,
    set2 _ h2.hme_level1_search_area_in_width_array.1, set2 _ h2.hme_level1_search_area_in_height_array.1,
    set2 _ h2.hme_level2_search_area_in_width_array.1, set2 _ h2.hme_level2_search_area_in_height_array.1]

/-- Non-vacuity: memory filled with 0x00 and with 0xFF are both well-typed prior contents. -/
example : (Cfg.fillByte 0).enc_mode = 0 ∧ (Cfg.fillByte 255).enc_mode = -1 ∧ (Cfg.fillByte 255).qp = 4294967295 := by decide

/-- Every member is assigned by the generated model of the C function (the list is computed by the translator). -/
theorem every_member_assigned : ∀ f ∈ cfgFieldNames, f ∈ initAssigned := by decide

/-- **The defaults are accepted** for every picture size in the accepted range (even, 64..4096 x 64..2160), on a fresh
    handle, and the copy into the sequence control set stays in bounds. -/
theorem defaults_accepted (w h : Int) (hw : 64 ≤ w ∧ w ≤ 4096 ∧ w % 2 = 0) (hh : 64 ≤ h ∧ h ≤ 2160 ∧ h % 2 = 0) :
    setParameterAccepts {} (dfltWH w h) = true ∧ setParameterOob {} (dfltWH w h) = false := by
  constructor
  · rw [accepts_iff_all_rules]
    obtain ⟨e0, e1, e4, e10, e11, e12, e13, e14, e15, e16, e17, e18, e19, e20, e21, e22, e23, e24, e25, e26, e27, e28, e29,
      e30, e31, e32, e33, e34, e35, e36, e37, e38, e39, e40, e41, e42, e43, e44, e45, e46, e47, e48, e49, e50, e51, e52, e53,
      e54, e55, e56, e57, e58, e59, e60, e61, e62, e63, e64, e65, e66, e67, e68, e69, e70, e71, e72, e73, e74, e75, e76, e77,
      e78, e79, e80, e81, e82, e83, e84, e85, e86, e87, e88, e89, e90, e91, e92, e93, e94, e95, e96, e97⟩ := rules_size_free w h
    obtain ⟨k0, k1, k4, k10, k11, k12, k13, k14, k15, k16, k17, k18, k19, k20, k21, k22, k23, k24, k25, k26, k27, k28, k29,
      k30, k31, k32, k33, k34, k35, k36, k37, k38, k39, k40, k41, k42, k43, k44, k45, k46, k47, k48, k49, k50, k51, k52, k53,
      k54, k55, k56, k57, k58, k59, k60, k61, k62, k63, k64, k65, k66, k67, k68, k69, k70, k71, k72, k73, k74, k75, k76, k77,
      k78, k79, k80, k81, k82, k83, k84, k85, k86, k87, k88, k89, k90, k91, k92, k93, k94, k95, k96, k97⟩ := rules_size_free_hold
    have hw0 : (0 : Int) ≤ w % 65536 := Int.emod_nonneg _ (by decide)
    have hh0 : (0 : Int) ≤ h % 65536 := Int.emod_nonneg _ (by decide)
    have ew : w % 65536 = w := Int.emod_eq_of_lt (by omega) (by omega)
    have eh : h % 65536 = h := Int.emod_eq_of_lt (by omega) (by omega)
    have s2 : rej2 {} (dfltWH w h) = false := (rej2_iff _ _).2 (by show 64 ≤ w % 65536; omega)
    have s3 : rej3 {} (dfltWH w h) = false := (rej3_iff _ _).2 (by show 64 ≤ h % 65536; omega)
    have s5 : rej5 {} (dfltWH w h) = false := (rej5_iff _ _).2 (by
      show ¬ (w % 65536 % 8 ≠ 0 ∧ (dfltWH w h).compressed_ten_bit_format = 1)
      intro hc
      have e : (dfltWH w h).compressed_ten_bit_format = 0 := rfl
      rw [e] at hc; exact absurd hc.2 (by decide))
    have s6 : rej6 {} (dfltWH w h) = false := (rej6_iff _ _).2 (by show w % 65536 % 2 = 0; omega)
    have s7 : rej7 {} (dfltWH w h) = false := (rej7_iff _ _).2 (by show h % 65536 % 2 = 0; omega)
    have s8 : rej8 {} (dfltWH w h) = false := (rej8_iff _ _).2 (by show w % 65536 ≤ 4096; omega)
    have s9 : rej9 {} (dfltWH w h) = false := (rej9_iff _ _).2 (by show h % 65536 ≤ 2160; omega)
    exact ⟨e0 ▸ k0, e1 ▸ k1, s2, s3, e4 ▸ k4, s5, s6, s7, s8, s9, e10 ▸ k10, e11 ▸ k11, e12 ▸ k12, e13 ▸ k13, e14 ▸ k14,
      e15 ▸ k15, e16 ▸ k16, e17 ▸ k17, e18 ▸ k18, e19 ▸ k19, e20 ▸ k20, e21 ▸ k21, e22 ▸ k22, e23 ▸ k23, e24 ▸ k24,
      e25 ▸ k25, e26 ▸ k26, e27 ▸ k27, e28 ▸ k28, e29 ▸ k29, e30 ▸ k30, e31 ▸ k31, e32 ▸ k32, e33 ▸ k33, e34 ▸ k34,
      e35 ▸ k35, e36 ▸ k36, e37 ▸ k37, e38 ▸ k38, e39 ▸ k39, e40 ▸ k40, e41 ▸ k41, e42 ▸ k42, e43 ▸ k43, e44 ▸ k44,
      e45 ▸ k45, e46 ▸ k46, e47 ▸ k47, e48 ▸ k48, e49 ▸ k49, e50 ▸ k50, e51 ▸ k51, e52 ▸ k52, e53 ▸ k53, e54 ▸ k54,
      e55 ▸ k55, e56 ▸ k56, e57 ▸ k57, e58 ▸ k58, e59 ▸ k59, e60 ▸ k60, e61 ▸ k61, e62 ▸ k62, e63 ▸ k63, e64 ▸ k64,
      e65 ▸ k65, e66 ▸ k66, e67 ▸ k67, e68 ▸ k68, e69 ▸ k69, e70 ▸ k70, e71 ▸ k71, e72 ▸ k72, e73 ▸ k73, e74 ▸ k74,
      e75 ▸ k75, e76 ▸ k76, e77 ▸ k77, e78 ▸ k78, e79 ▸ k79, e80 ▸ k80, e81 ▸ k81, e82 ▸ k82, e83 ▸ k83, e84 ▸ k84,
      e85 ▸ k85, e86 ▸ k86, e87 ▸ k87, e88 ▸ k88, e89 ▸ k89, e90 ▸ k90, e91 ▸ k91, e92 ▸ k92, e93 ▸ k93, e94 ▸ k94,
      e95 ▸ k95, e96 ▸ k96, e97 ▸ k97⟩
  · have : setParameterOob {} (dfltWH w h) = setParameterOob {} (dfltWH 64 64) := rfl
    rw [this]; decide

/-- Non-vacuity of the size hypotheses. -/
example : (64 : Int) ≤ 1920 ∧ (1920 : Int) ≤ 4096 ∧ (1920 : Int) % 2 = 0 := by decide

/-- The output of `set_parameter` does not depend on the caller's prior memory either: composing the two results. -/
theorem accepted_whatever_the_prior_memory (c : Cfg) (hc : c.WellTyped) (w h : Int)
    (hw : 64 ≤ w ∧ w ≤ 4096 ∧ w % 2 = 0) (hh : 64 ≤ h ∧ h ≤ 2160 ∧ h % 2 = 0) :
    setParameterAccepts {} { initParam c with source_width := w, source_height := h } = true := by
  have hz : (({} : Cfg)).WellTyped := by constructor <;> decide
  have e : initParam c = dflt := defaults_total c {} hc hz
  rw [e]; exact (defaults_accepted w h hw hh).1

end C13
