/-
  C10 — the decoder survives arbitrary input bytes: the byte-level OBU framing contract.

  Model: `SvtVerif/Model/ObuWalk.lean` (`svt_av1_dec_frame` → `decode_multiple_obu` → `dec_bits_init` /
  `read_obu_header` / `read_obu_size` / `dec_get_bits_leb128`; every load recorded; `size_t` arithmetic explicit;
  payload parsers opaque).  `asIs nd` = the pinned code (`nd` = built with NDEBUG), `fixed nd` = the code with
  hooks/fix-c10-*.patch.  `mem` = what the caller made readable, `ds` = the `data_size` argument.

  The full-strength statement

      obu_walk_reads_in_bounds :
        ∀ mem annexb oracle, (walk (asIs nd) mem annexb oracle).st.maxRead ≤ mem.length ∧ outcome is a return

  is FALSE of the pinned code; its negation is proved below with concrete witnesses (`obu_walk_overread`,
  `obu_walk_overread_temporal_unit`, `obu_walk_overread_frame_end`, `obu_walk_size_wrap`, `walk_hangs_release`,
  `walk_aborts_debug`).  What does hold of the pinned code is proved under the exact side conditions
  (`obu_walk_in_bounds_partial`, `walk_terminates_debug_partial`), and the full statement is proved of the repaired code
  (`obu_walk_reads_in_bounds_fixed`, `walk_terminates_fixed`).
-/
import SvtVerif.Lemmas.ObuWalk

namespace C10
open ObuWalk

/-! ### LEB128 -/

/-- `dec_get_bits_leb128` (EbDecBitstream.c l.51) consumes between 1 and 8 whole bytes whatever the input is, moves
    `bs->buf` by at most 8 bytes (two refill loads), and `read_obu_size` (EbDecParseObu.c l.474) accepts only values
    that fit 32 bits.  (`available` is ignored by the C code: the 8 bytes are read even when fewer remain.) -/
theorem leb128_decode_bounds (c : Cfg) (mem : List UInt8) (bs : Bs) (hi : bs.Inv c) :
    1 ≤ (leb128 c mem bs).2.1 ∧ (leb128 c mem bs).2.1 ≤ 8 ∧
    (leb128 c mem bs).2.2.bits = bs.bits + 8 * (leb128 c mem bs).2.1 ∧
    (leb128 c mem bs).2.2.bufOff ≤ bs.bufOff + 8 ∧
    (∀ v l bs', readObuSize c mem bs = (.ok (v, l), bs') → v ≤ UINT32_MAX) := by
  obtain ⟨i1, h1, h8, ha⟩ := leb128_spec c mem bs hi
  refine ⟨h1, h8, ha.bits, ?_, fun v l bs' hr => ?_⟩
  · have e0 := hi.bufOff_eq
    have e1 := i1.bufOff_eq
    have hb := ha.base
    have hbits := ha.bits
    omega
  · exact ((readObuSize_spec c mem bs hi _ _ hr).2.1 v l rfl).1

-- non-vacuity: a freshly initialised reader satisfies the hypothesis; a 2-byte value decodes
example : (bitsInit (asIs false) [0x85, 0x01, 0, 0, 0, 0, 0, 0] 0 8).Inv (asIs false) := bitsInit_inv _ _ _ _
example : (leb128 (asIs false) [0x85, 0x01, 0, 0, 0, 0, 0, 0] (bitsInit (asIs false) [0x85, 0x01, 0, 0, 0, 0, 0, 0] 0 8)).1 = 133
    ∧ (leb128 (asIs false) [0x85, 0x01, 0, 0, 0, 0, 0, 0] (bitsInit (asIs false) [0x85, 0x01, 0, 0, 0, 0, 0, 0] 0 8)).2.1 = 2 := by
  decide

/-! ### the pinned code reads outside the buffer (negation of the full statement) -/

/-- A 1-byte buffer: `dec_bits_init` loads 8 bytes whatever `numbytes` is (EbDecBitstream.c l.27-29), the size field is
    read from memory that is not there, `data_size -= 2` wraps, and the second `dec_bits_init` loads bytes 2..9. -/
theorem obu_walk_overread :
    ∃ mem : List UInt8, mem.length = 1 ∧ (walk (asIs false) mem false okOracle).st.maxRead > mem.length :=
  ⟨[0x12], by decide⟩

/-- A perfectly valid temporal unit made of one temporal delimiter OBU (`12 00`): the payload reader is initialised at
    the end of the buffer and loads 8 bytes there (l.2528).  Any packet whose last OBU has a payload shorter than 8
    bytes (every show-existing-frame packet of the encoder) is read out of bounds. -/
theorem obu_walk_overread_temporal_unit :
    (walk (asIs false) [0x12, 0x00] false okOracle).outcome = .ret 0 ∧
    (walk (asIs false) [0x12, 0x00] false okOracle).st.wrapped = false ∧
    (walk (asIs false) [0x12, 0x00] false okOracle).st.maxRead = 10 := by
  decide

/-- A frame: temporal delimiter + OBU_FRAME with a 12-byte payload whose tile group parses and finishes the frame.
    `read_tile_group_obu` re-initialises the OBU reader at the end of the last tile (l.2401): 8 bytes are loaded past
    the end of EVERY packet that ends with a tile group, i.e. of every coded frame. -/
theorem obu_walk_overread_frame_end :
    (walk (asIs false) [0x12, 0x00, 0x32, 0x0c, 1, 2, 3, 4, 5, 6, 7, 8, 9, 10, 11, 12] false (fun _ => .cont 0 true)).outcome = .ret 0 ∧
    (walk (asIs false) [0x12, 0x00, 0x32, 0x0c, 1, 2, 3, 4, 5, 6, 7, 8, 9, 10, 11, 12] false (fun _ => .cont 0 true)).st.maxRead = 16 + 8 := by
  decide

/-- `data_size -= obu_header.size + length_size` (l.2523) is executed before `data_size < payload_size` is tested and
    wraps: `data_size = 1`, 15 readable bytes behind it (so nothing is loaded from outside the allocation until then).
    After the wrap `data_size` is 2^64-1, the walk runs through the whole padding (8 OBUs instead of at most 1) and
    leaves the allocation.  No amount of padding behind the data protects the caller. -/
theorem obu_walk_size_wrap :
    ∃ mem : List UInt8, mem.length = 16 ∧
      (decFrame (asIs false) mem 1 false okOracle).st.wrapped = true ∧
      (decFrame (asIs false) mem 1 false okOracle).st.obus.length = 8 ∧
      (decFrame (asIs false) mem 1 false okOracle).st.maxRead > mem.length :=
  ⟨[0x12, 0, 0x12, 0, 0x12, 0, 0x12, 0, 0x12, 0, 0x12, 0, 0x12, 0, 0x12, 0], by decide⟩

/-- `obu_has_size_field = 0` outside Annex-B: `payload_size` is taken from `obu_header.payload_size`, a local of
    `decode_multiple_obu` that nothing has written (l.2473, l.2520) — an uninitialised read decides how far the walk goes. -/
theorem obu_walk_uninitialised_size :
    (decFrame (asIs false) [0x10, 0, 0, 0, 0, 0, 0, 0, 0, 0, 0, 0, 0, 0, 0, 0] 1 false okOracle).st.uninit = true := by
  decide

/-! ### what the pinned code does guarantee -/

/-- PARTIAL (pinned code).  If no `size_t` subtraction wraps — i.e. at every OBU `header + size field ≤ data_size` (and,
    in Annex-B, `length ≤ data_size`, `obu_size ≥ header`) — every load of the framing layer is below
    `data_size + 23`: a caller that keeps 23 readable bytes behind the data is safe exactly as long as `wrapped` stays
    false.  Both side conditions are needed: `obu_walk_overread` (no padding), `obu_walk_size_wrap` (wrap).
    `c` is any configuration without the bit-reader repair: `asIs nd`, whatever the uninitialised size holds.
    Full statement (false, see the file header): `maxRead ≤ data_size` with no hypothesis. -/
theorem obu_walk_in_bounds_partial (c : Cfg) (hc : c.safeLoad = false) (mem : List UInt8) (ds : Nat) (annexb : Bool)
    (oracle : Oracle) (hds : ds < two64) (hw : (decFrame c mem ds annexb oracle).st.wrapped = false) :
    (decFrame c mem ds annexb oracle).st.maxRead ≤ ds + 23 := by
  have h := (frameLoop_bound c mem annexb oracle ds hds (2 * (ds + mem.length) + 4) 0 0 (St.init ds)
    (fun _ => Nat.zero_le _)).1
  have hm := (h hw).2
  have hr : rb c ds = ds + 23 := by simp [rb, hc]
  rw [hr] at hm; exact hm

-- non-vacuity: `asIs nd` (with any garbage) satisfies the hypothesis; a real two-OBU buffer does not wrap;
-- and the bound is attained up to 8 bytes (ds + 15 without Annex-B)
example (nd : Bool) (g : Nat) : ({ asIs nd with garbage := g } : Cfg).safeLoad = false := rfl
example : (decFrame (asIs false) [0x12, 0x00, 0x12, 0x00] 4 false okOracle).st.wrapped = false := by decide
example : (decFrame (asIs false) [0x16, 0x00, 0xff, 0xff, 0xff, 0xff, 0xff, 0xff, 0xff, 0xff] 1 false okOracle).st.wrapped = false
    ∧ (decFrame (asIs false) [0x16, 0x00, 0xff, 0xff, 0xff, 0xff, 0xff, 0xff, 0xff, 0xff] 1 false okOracle).st.maxRead = 1 + 15 := by
  decide

/-! ### the repaired code: the full statement -/

/-- FULL STRENGTH for the code with hooks/fix-c10-bits-bounds.patch + fix-c10-obu-size-check.patch: for every memory,
    every `data_size`, both framings and whatever the payload parsers do, no `size_t` subtraction wraps and every load
    of the framing layer is below `data_size`; no uninitialised size is read.  (`c` = any configuration with the two
    patches, in particular `fixed nd`; the third patch and NDEBUG do not matter here.) -/
theorem obu_walk_reads_in_bounds_fixed (c : Cfg) (h1 : c.safeLoad = true) (h2 : c.checkSub = true) (mem : List UInt8)
    (ds : Nat) (annexb : Bool) (oracle : Oracle) (hds : ds < two64) :
    (decFrame c mem ds annexb oracle).st.wrapped = false ∧
    (decFrame c mem ds annexb oracle).st.uninit = false ∧
    (decFrame c mem ds annexb oracle).st.maxRead ≤ ds := by
  have h := frameLoop_bound c mem annexb oracle ds hds (2 * (ds + mem.length) + 4) 0 0 (St.init ds)
    (fun _ => Nat.zero_le _)
  have hw := h.2 h2 rfl
  have hm := (h.1 hw).2
  have hr : rb c ds = ds := by simp [rb, h1]
  rw [hr] at hm
  refine ⟨hw, ?_, hm⟩
  exact frameLoop_uninit c h2 mem annexb oracle ds (2 * (ds + mem.length) + 4) 0 0 (St.init ds) rfl

-- non-vacuity: `fixed nd` satisfies the hypotheses; the witnesses of the pinned code, on the repaired code
example (nd : Bool) : (fixed nd).safeLoad = true ∧ (fixed nd).checkSub = true ∧ (fixed nd).errReturn = true := ⟨rfl, rfl, rfl⟩
example : (walk (fixed false) [0x12] false okOracle).st.maxRead ≤ 1 := by decide
example : (walk (fixed false) [0x12, 0x00] false okOracle).outcome = .ret 0 ∧
    (walk (fixed false) [0x12, 0x00] false okOracle).st.maxRead = 2 := by decide

/-! ### progress and termination -/

/-- One iteration of `while (!frame_decoding_finished)` (any configuration): unless a subtraction wrapped, the iteration
    either returns, or advances `*data` by at least one byte, decreases `data_size` by at least one, keeps
    `*data + data_size` equal to the end of the data, and leaves `data_size ≥ 1` when the loop goes on. -/
theorem walk_progress (c : Cfg) (mem : List UInt8) (annexb : Bool) (oracle : Oracle) (E : Nat) (hE : E < two64)
    (st st' : St) (fin : Bool) (hh : Head c E st) (hs : dmoStep c mem annexb oracle st = .inr (st', fin))
    (hw : st'.wrapped = false) :
    st.pos < st'.pos ∧ st'.dataSize < st.dataSize ∧ st'.pos + st'.dataSize = E ∧ (fin = false → 1 ≤ st'.dataSize) := by
  obtain ⟨⟨r1, _⟩, _⟩ := (dmoStep_spec c mem annexb oracle st E hE hh).2 st' fin hs
  obtain ⟨_, _, q3, q4, q5, q6⟩ := r1 hw
  exact ⟨q5, q4, q3, q6⟩

-- non-vacuity: the first iteration on `12 00 12 00`
example : Head (asIs false) 4 (St.init 4) := by
  simp [Head, St.init, two64, rb, asIs]
example : (dmoStep (asIs false) [0x12, 0x00, 0x12, 0x00] false okOracle (St.init 4)).isRight = true ∧
    ((dmoStep (asIs false) [0x12, 0x00, 0x12, 0x00] false okOracle (St.init 4)).getRight?.map
      (fun r => (r.1.wrapped, r.1.pos, r.2))) = some (false, 2, false) := by decide

/-- FULL STRENGTH for the repaired code (all three patches): `svt_av1_dec_frame` returns — the model's iteration bounds
    are never reached and the outer loop never repeats a failing call — for every input; in a build with NDEBUG it does
    not abort either (without NDEBUG the two `seen_frame_header` asserts l.2563/2566 remain reachable).  (`OracleOk`: the payload
    parsers leave the `switch` with `return status` only when `status != EB_ErrorNone`, as the C code does.) -/
theorem walk_terminates_fixed (c : Cfg) (h1 : c.safeLoad = true) (h2 : c.checkSub = true) (h3 : c.errReturn = true)
    (mem : List UInt8) (ds : Nat) (annexb : Bool) (oracle : Oracle) (hds : ds < two64) (ho : OracleOk oracle) :
    (decFrame c mem ds annexb oracle).outcome ≠ .fuel ∧
    (decFrame c mem ds annexb oracle).outcome ≠ .hang ∧
    (c.ndebug = true → (decFrame c mem ds annexb oracle).outcome ≠ .abort) := by
  have hw := (obu_walk_reads_in_bounds_fixed c h1 h2 mem ds annexb oracle hds).1
  have ht := frameLoop_term c mem annexb oracle ds hds (Or.inl h3) ho (2 * (ds + mem.length) + 4) 0 0 (St.init ds)
    (fun _ => Nat.zero_le _) (by simp only [St.init]; omega) hw
  exact ⟨ht.1, ht.2, fun hn => frameLoop_noabort c h3 hn mem annexb oracle ds (2 * (ds + mem.length) + 4) 0 0 (St.init ds)⟩

example : OracleOk okOracle := fun _ _ h => by cases h

/-- PARTIAL (pinned code, build WITHOUT NDEBUG).  If no subtraction wraps the call ends: with a return, or with
    `assert(0)` (EbDecHandle.c l.596) on ANY error, which is itself an abort on malformed input (`walk_aborts_debug`).
    The hypothesis is needed: after a wrap `data_size` is no longer a bound on the number of iterations. -/
theorem walk_terminates_debug_partial (c : Cfg) (hn : c.ndebug = false) (mem : List UInt8) (ds : Nat) (annexb : Bool)
    (oracle : Oracle) (hds : ds < two64) (ho : OracleOk oracle)
    (hw : (decFrame c mem ds annexb oracle).st.wrapped = false) :
    (decFrame c mem ds annexb oracle).outcome ≠ .fuel ∧
    (decFrame c mem ds annexb oracle).outcome ≠ .hang :=
  frameLoop_term c mem annexb oracle ds hds (Or.inr hn) ho (2 * (ds + mem.length) + 4) 0 0 (St.init ds)
    (fun _ => Nat.zero_le _) (by simp only [St.init]; omega) hw

example : (asIs false).ndebug = false := rfl
example : (decFrame (asIs false) [0x12, 0x00, 0x12, 0x00] 4 false okOracle).outcome = .ret 0 := by decide

/-- Pinned code built WITH NDEBUG (a Release build): one byte with the forbidden bit set (16 readable bytes behind it, so
    nothing is read out of bounds).  `decode_multiple_obu` returns `EB_Corrupt_Frame` without moving `data_start`,
    `assert(0)` is compiled out, and `while (data_start < data_end)` calls it again with the same arguments: the call
    never returns.  Termination of the pinned Release build needs the hypothesis "no OBU is malformed". -/
theorem walk_hangs_release :
    (decFrame (asIs true) [0x80, 0, 0, 0, 0, 0, 0, 0, 0, 0, 0, 0, 0, 0, 0, 0, 0] 1 false okOracle).outcome = .hang ∧
    (decFrame (asIs true) [0x80, 0, 0, 0, 0, 0, 0, 0, 0, 0, 0, 0, 0, 0, 0, 0, 0] 1 false okOracle).st.maxRead ≤ 17 := by
  decide

/-- The same input on the pinned code built without NDEBUG: the process is aborted by `assert(0)`. -/
theorem walk_aborts_debug :
    (decFrame (asIs false) [0x80, 0, 0, 0, 0, 0, 0, 0, 0, 0, 0, 0, 0, 0, 0, 0, 0] 1 false okOracle).outcome = .abort := by
  decide

/-- The same input on the repaired code: `EB_Corrupt_Frame` is returned. -/
theorem walk_returns_error_fixed :
    (decFrame (fixed true) [0x80, 0, 0, 0, 0, 0, 0, 0, 0, 0, 0, 0, 0, 0, 0, 0, 0] 1 false okOracle).outcome = .ret EB_Corrupt_Frame ∧
    (decFrame (fixed false) [0x80, 0, 0, 0, 0, 0, 0, 0, 0, 0, 0, 0, 0, 0, 0, 0, 0] 1 false okOracle).outcome = .ret EB_Corrupt_Frame := by
  decide

end C10
