/-
  C11 — encoding never corrupts memory, hits undefined behaviour or hangs.

  This family cannot prove memory safety of ~100 k lines of encoder.  What IS proved here (for all sizes / inputs):
  (a) the padding arithmetic of `set_param_based_on_input`, for every picture size the validator accepts;
  (b) the recon output buffer is large enough for the three planes `recon_output` writes, for every accepted size and depth;
  (c) the per-picture bitstream buffers are two constants, the copies into them are unchecked, the raw picture alone
      exceeds them for accepted configurations (NEGATIVE theorem `bitbuf_not_bounded`; replayed on the real encoder by the check);
  (d) `copy_api_from_app` writes outside the HME arrays for configurations that are later accepted (re-export of C12);
  (e) the liveness pieces proved elsewhere, re-exported: EncDec segments always complete (C24), no lost wake-up in the
      system resource manager (C23), the pre-assignment buffer never strands a picture at EOS (C03).
  Everything else (pixel kernels, mode decision, rate control, …) is exercised under ASan/UBSan by checks/c11.py, not proved.
  Property theorems only; helper lemmas live in SvtVerif/Lemmas/PadRecon.lean.
-/
import SvtVerif.Lemmas.PadRecon
import SvtVerif.Props.C12
import SvtVerif.Props.C24
import SvtVerif.Props.C23
import SvtVerif.Props.C03

namespace C11
open CSem Padding ReconSize BitBuf Lemmas.PadRecon

/-! ## (a) padding -/

/-- Tie to the translated validator: every configuration `svt_av1_enc_set_parameter` accepts (generated model of
    `copy_api_from_app; verify_settings`, C12) has a picture size in `AcceptedSize` — the size `copy_api_from_app` stores in
    `max_input_luma_width/height` is `source_width/height` truncated to 16 bits (EbEncHandle.c:2185-2186). -/
theorem accepted_cfg_size (s : Gen.Config.Scs) (c : Gen.Config.Cfg) (hs : s.WellTyped) (hc : c.WellTyped)
    (h : Gen.Config.setParameterAccepts s c = true) :
    AcceptedSize (c.source_width % 65536) (c.source_height % 65536) := by
  have d := (C12.accept_iff_codeDomain s c hs hc).1 h
  exact ⟨d.d2, d.d8, d.d3, d.d9, d.d6, d.d7⟩

/-- **pad_spec.** For every accepted picture size (4:2:0: both subsampling shifts 1) `set_param_based_on_input` leaves:
    padded luma dimensions that are the least multiple of 8 (`MIN_BLOCK_SIZE`) not below the input, pads `< 8` equal to the
    difference, chroma dimensions exactly half the padded luma dimensions, everything still inside the accepted maxima and
    inside `uint16_t`. -/
theorem pad_spec (w h : Int) (ha : AcceptedSize w h) :
    (setParamPad w h 1 1).lumaW % 8 = 0 ∧ w ≤ (setParamPad w h 1 1).lumaW ∧ (setParamPad w h 1 1).lumaW < w + 8 ∧
    (setParamPad w h 1 1).padRight = (setParamPad w h 1 1).lumaW - w ∧
    0 ≤ (setParamPad w h 1 1).padRight ∧ (setParamPad w h 1 1).padRight < 8 ∧
    (setParamPad w h 1 1).lumaH % 8 = 0 ∧ h ≤ (setParamPad w h 1 1).lumaH ∧ (setParamPad w h 1 1).lumaH < h + 8 ∧
    (setParamPad w h 1 1).padBottom = (setParamPad w h 1 1).lumaH - h ∧
    0 ≤ (setParamPad w h 1 1).padBottom ∧ (setParamPad w h 1 1).padBottom < 8 ∧
    (setParamPad w h 1 1).chromaW * 2 = (setParamPad w h 1 1).lumaW ∧
    (setParamPad w h 1 1).chromaH * 2 = (setParamPad w h 1 1).lumaH ∧
    (setParamPad w h 1 1).lumaW ≤ 4096 ∧ (setParamPad w h 1 1).lumaH ≤ 2160 := by
  obtain ⟨hw0, hw1, hh0, hh1, hw2, hh2⟩ := ha
  have ew := padDim_closed w (by omega) (by omega)
  have eh := padDim_closed h (by omega) (by omega)
  have cw : wrapU 16 ((w + (8 - w % 8) % 8) / 2 ^ 1) = (w + (8 - w % 8) % 8) / 2 := wrapU16_id _ (by omega) (by omega)
  have ch : wrapU 16 ((h + (8 - h % 8) % 8) / 2 ^ 1) = (h + (8 - h % 8) % 8) / 2 := wrapU16_id _ (by omega) (by omega)
  simp only [setParamPad, ew, eh, cw, ch]
  omega

/-- "Least": no smaller multiple of 8 covers the input. -/
theorem pad_least (w h m : Int) (ha : AcceptedSize w h) (hm : m % 8 = 0) :
    (w ≤ m → (setParamPad w h 1 1).lumaW ≤ m) ∧ (h ≤ m → (setParamPad w h 1 1).lumaH ≤ m) := by
  obtain ⟨hw0, hw1, hh0, hh1, hw2, hh2⟩ := ha
  have ew := padDim_closed w (by omega) (by omega)
  have eh := padDim_closed h (by omega) (by omega)
  simp only [setParamPad, ew, eh]
  omega

/-- The same closed form holds for every 16-bit size up to 65528; beyond it the padded width wraps (the validator's 4096
    limit is what keeps the arithmetic exact, not the code itself). -/
theorem pad_wraps_beyond_u16 : padDim 65530 = (6, 0) := by decide

example : setParamPad 66 70 1 1 = { lumaW := 72, lumaH := 72, padRight := 6, padBottom := 2, chromaW := 36, chromaH := 36 } := by decide
example : AcceptedSize 66 70 := by decide

/-! ## (b) recon output buffer -/

/-- **recon_sizes_fit.** For every accepted size and every `encoder_bit_depth`, with the buffer allocated by
    `svt_output_recon_buffer_header_creator` from the padded dimensions and `recon_ptr->max_width/height` the padded
    dimensions (EbEncHandle.c:1083-1084, 1183-1184): each of the three `CHECK_REPORT_ERROR(n_filled_len + sample_total_count <=
    n_alloc_len)` of `recon_output` holds (no `EB_ENC_ROB_OF_ERROR` error packet), `n_filled_len` runs through
    `w·h`, `w·h + w·h/4`, `w·h·3/2` (times 2 at high bit depth) — the size of the visible 4:2:0 picture, which is what the
    application's buffer must hold — and no `uint32_t` / `int` intermediate wraps. -/
theorem recon_sizes_fit (w h bd : Int) (ha : AcceptedSize w h) :
    checksPass (reconAlloc (setParamPad w h 1 1).lumaW (setParamPad w h 1 1).lumaH bd) 0
      (reconIncs (setParamPad w h 1 1).lumaW (setParamPad w h 1 1).lumaH (setParamPad w h 1 1).padRight
        (setParamPad w h 1 1).padBottom bd) = true ∧
    filledAfter 0 (reconIncs (setParamPad w h 1 1).lumaW (setParamPad w h 1 1).lumaH (setParamPad w h 1 1).padRight
        (setParamPad w h 1 1).padBottom bd) =
      [w * h * 2 ^ is16 bd, (w * h + w * h / 4) * 2 ^ is16 bd, (w * h + w * h / 2) * 2 ^ is16 bd] ∧
    (w * h + w * h / 2) * 2 ^ is16 bd ≤ reconAlloc (setParamPad w h 1 1).lumaW (setParamPad w h 1 1).lumaH bd ∧
    reconAlloc (setParamPad w h 1 1).lumaW (setParamPad w h 1 1).lumaH bd < 2 ^ 31 := by
  have hp := pad_spec w h ha
  obtain ⟨hw0, hw1, hh0, hh1, hw2, hh2⟩ := ha
  generalize (setParamPad w h 1 1) = d at hp ⊢
  obtain ⟨_, p2, _, p4, _, _, _, p8, _, p10, _, _, _, _, p15, p16⟩ := hp
  obtain ⟨a0, a1, a2, a3⟩ := area_facts w h d.lumaW d.lumaH hw0 p2 p15 hh0 p8 p16 hw2 hh2
  have e1 : d.lumaW - d.padRight = w := by omega
  have e2 : d.lumaH - d.padBottom = h := by omega
  generalize hA : w * h = A at a0 a1 a3 ⊢
  generalize hB : d.lumaW * d.lumaH = B at a1 a2 ⊢
  have hs : is16 bd = 0 ∨ is16 bd = 1 := by unfold is16; split <;> simp
  have wB : wrapU 32 B = B := wrapU32_id _ (by omega) (by omega)
  rcases hs with hs | hs
  · have y1 : wrapU 32 (A * 2 ^ 0) = A := by rw [wrapU32_id] <;> omega
    have y2 : wrapU 32 (A / 4 * 2 ^ 0) = A / 4 := by rw [wrapU32_id] <;> omega
    have y3 : wrapU 32 (0 + A) = A := by rw [wrapU32_id] <;> omega
    have y4 : wrapU 32 (A + A / 4) = A + A / 4 := by rw [wrapU32_id] <;> omega
    have y5 : wrapU 32 (A + A / 4 + A / 4) = A + A / 4 + A / 4 := by rw [wrapU32_id] <;> omega
    have y6 : wrapU 32 ((B + B / 2) * 2 ^ 0) = B + B / 2 := by rw [wrapU32_id] <;> omega
    simp only [reconAlloc, reconIncs, checksPass, filledAfter, e1, e2, hA, hB, hs, wB, y1, y2, y3, y4, y5, y6,
      Bool.and_true, Bool.and_eq_true, decide_eq_true_eq]
    refine ⟨⟨by omega, by omega, by omega⟩, ?_, by omega, by omega⟩
    simp only [Int.pow_zero, Int.mul_one, List.cons.injEq, and_true, true_and]
    omega
  · have y1 : wrapU 32 (A * 2 ^ 1) = A * 2 := by rw [wrapU32_id] <;> omega
    have y2 : wrapU 32 (A / 4 * 2 ^ 1) = A / 4 * 2 := by rw [wrapU32_id] <;> omega
    have y3 : wrapU 32 (0 + A * 2) = A * 2 := by rw [wrapU32_id] <;> omega
    have y4 : wrapU 32 (A * 2 + A / 4 * 2) = A * 2 + A / 4 * 2 := by rw [wrapU32_id] <;> omega
    have y5 : wrapU 32 (A * 2 + A / 4 * 2 + A / 4 * 2) = A * 2 + A / 4 * 2 + A / 4 * 2 := by rw [wrapU32_id] <;> omega
    have y6 : wrapU 32 ((B + B / 2) * 2 ^ 1) = (B + B / 2) * 2 := by rw [wrapU32_id] <;> omega
    simp only [reconAlloc, reconIncs, checksPass, filledAfter, e1, e2, hA, hB, hs, wB, y1, y2, y3, y4, y5, y6,
      Bool.and_true, Bool.and_eq_true, decide_eq_true_eq]
    refine ⟨⟨by omega, by omega, by omega⟩, ?_, by omega, by omega⟩
    simp only [Int.pow_one, List.cons.injEq, and_true, true_and]
    omega

/-- The bytes `picture_copy_kernel` actually writes for each plane never exceed that plane's `sample_total_count`
    increment, also when the coded width/height are smaller than the maximum (super-resolution / `pad_right` handling):
    for `0 ≤ area ≤ stride`, extent ≤ stride · rows · bytes-per-sample. -/
theorem recon_copy_within_increment (stride aw ah bps : Int) (hs : aw ≤ stride) (hb : 0 ≤ bps) (hah : 0 ≤ ah) (hst : 0 ≤ stride) :
    copyExtent stride aw ah bps ≤ stride * ah * bps := copyExtent_le stride aw ah bps hs hb hah hst

example : reconAlloc 72 72 10 = 15552 ∧ filledAfter 0 (reconIncs 72 72 6 2 10) = [9240, 11550, 13860] ∧
    checksPass (reconAlloc 72 72 10) 0 (reconIncs 72 72 6 2 10) = true := by decide

/-! ## (c) bitstream buffers -/

/-- The per-picture bitstream buffer size is one of two constants — it does not depend on bit depth, quantizer, preset or
    anything but which side of 0x16DA00 luma samples the padded picture is on. -/
theorem bitbuf_two_values (padW padH : Int) : bufSize padW padH = 2000000 ∨ bufSize padW padH = 3000000 := by
  unfold bufSize; split <;> simp

/-- Tiles do not add room: the per-tile entropy-coder buffers together are at most the picture buffer. -/
theorem tile_buffers_sum_le (padW padH n : Int) (hn : 0 < n) : tileBufSize padW padH n * n ≤ bufSize padW padH := by
  have h2 := bitbuf_two_values padW padH
  have hw : wrapU 32 (bufSize padW padH) = bufSize padW padH := by
    rcases h2 with h | h <;> rw [h] <;> decide
  unfold tileBufSize
  rw [hw]
  exact Int.ediv_mul_le _ (by omega)

/-- **bitbuf_not_bounded** (the honest, NEGATIVE theorem).  There is an accepted configuration whose *uncompressed picture*
    is larger than the buffer the coded picture is copied into: 1920x1080, 8 bit (3 110 400 > 3 000 000 bytes).  A coded frame of
    incompressible content at a small quantizer is larger still (measured 1.85 bytes/pixel at 8 bit, 2.43 at 10 bit), so no
    size-independent constant can be a bound; the check replays 1280x720 10-bit noise at qp 0 on the real encoder. -/
theorem bitbuf_not_bounded :
    ∃ w h bd : Int, AcceptedSize w h ∧ (bd = 8 ∨ bd = 10) ∧
      bufSize (setParamPad w h 1 1).lumaW (setParamPad w h 1 1).lumaH < rawBytes w h bd :=
  ⟨1920, 1080, 8, by decide, by decide, by decide⟩

/-- At the largest accepted size a frame must compress more than 4.4 : 1 (8 bit) / 5.5 : 1 (10 bit) to fit. -/
theorem bitbuf_max_size_ratio :
    4 * bufSize (setParamPad 4096 2160 1 1).lumaW (setParamPad 4096 2160 1 1).lumaH < rawBytes 4096 2160 8 ∧
    5 * bufSize (setParamPad 4096 2160 1 1).lumaW (setParamPad 4096 2160 1 1).lumaH < rawBytes 4096 2160 10 := by decide

/-- `svt_aom_daala_stop_encode` copies every byte the range coder produced, whatever the size of the tile's buffer; the
    copy leaves the buffer exactly when there are more bytes than the buffer has. -/
theorem stop_encode_unchecked (tileBuf n : Int) (hn : 0 ≤ n) :
    (stopEncode tileBuf n).1 = n ∧ ((stopEncode tileBuf n).2 = false ↔ tileBuf < n) := by
  simp only [stopEncode, copyInBounds, decide_eq_false_iff_not, true_and]
  omega

/-- `write_frame_header_av1`: the picture buffer receives header + all tiles + one size field per tile but the last … -/
theorem append_tiles_total (picBuf tsz cur : Int) (tiles : List Int) (hne : tiles ≠ []) :
    (appendTiles picBuf tsz cur tiles).1 = cur + tiles.sum + tsz * ((tiles.length : Int) - 1) :=
  appendTiles_total picBuf tsz tiles cur hne

/-- … and some copy leaves the buffer exactly when that total exceeds it (sizes non-negative). -/
theorem append_tiles_in_bounds_iff (picBuf tsz cur : Int) (tiles : List Int) (hne : tiles ≠ []) (ht : 0 ≤ tsz) (hc : 0 ≤ cur)
    (hpos : ∀ t ∈ tiles, 0 ≤ t) :
    (appendTiles picBuf tsz cur tiles).2 = true ↔ cur + tiles.sum + tsz * ((tiles.length : Int) - 1) ≤ picBuf := by
  constructor
  · intro h
    by_cases hle : cur + tiles.sum + tsz * ((tiles.length : Int) - 1) ≤ picBuf
    · exact hle
    · have := appendTiles_overflow picBuf tsz ht tiles cur hne hpos (by omega)
      rw [this] at h; cases h
  · exact appendTiles_fits picBuf tsz ht tiles cur hne hc hpos

/-- The measured witness replayed by the check: a 1280x720 10-bit noise frame at qp 0 codes to 2 241 5xx bytes in one tile;
    the tile buffer has 2 000 000. The uncompressed picture (1 728 000 bytes) would have fitted: the raw size is NOT an upper
    bound of the coded size. -/
theorem stop_encode_overflow_720p10 :
    (stopEncode (tileBufSize (setParamPad 1280 720 1 1).lumaW (setParamPad 1280 720 1 1).lumaH 1) 2241000).2 = false ∧
    rawBytes 1280 720 10 < bufSize 1280 720 := by decide

example : (appendTiles 100 4 10 [30, 30, 20]).1 = 98 ∧ (appendTiles 100 4 10 [30, 30, 20]).2 = true ∧
    (appendTiles 100 4 10 [30, 30, 23]).2 = false := by decide

/-! ## (d) the copy that precedes validation (F4; model and proofs are C12's) -/

/-- A HME region count of 3 makes `copy_api_from_app` write outside the two-entry arrays of the sequence control set
    (the configuration is rejected afterwards, the write has already happened). -/
theorem copy_out_of_bounds_witness :
    Gen.Config.setParameterOob {} { Lemmas.Config.dfltWH 64 64 with number_hme_search_region_in_width := 3 } = true :=
  C12.copy_out_of_bounds_witness

/-- With HME disabled the counts are not validated at all: an ACCEPTED configuration whose copy loop runs 1000 entries past
    two-entry arrays (replayed on the real API under ASan/UBSan by the check). -/
theorem accepted_yet_out_of_bounds :
    Gen.Config.setParameterAccepts {} { Lemmas.Config.dfltWH 64 64 with enable_hme_flag := 0, number_hme_search_region_in_width := 1000 } = true ∧
    Gen.Config.setParameterOob {} { Lemmas.Config.dfltWH 64 64 with enable_hme_flag := 0, number_hme_search_region_in_width := 1000 } = true :=
  C12.accepted_yet_out_of_bounds

/-! ## (e) liveness pieces, re-exported -/

open Seg in
/-- C24: for every accepted picture size and segment grid, under any interleaving of any number of EncDec workers, every
    terminal state has processed the segment of every superblock — the picture always completes. -/
theorem encdec_segments_complete {W H C R MR : Nat} (ok : InitOK W H C R MR) (MC : Nat)
    {st : ASt} (hr : Reachable (initSeg W H C R MC MR) st) (ht : Terminal (initSeg W H C R MC MR) st)
    {x y : Nat} (hx : x < W) (hy : y < H) :
    aget st.ph (segOf (initSeg W H C R MC MR) (x, y)) = 4 :=
  C24.assign_complete ok MC hr ht hx hy

open Srm in
/-- C23: no lost wake-up in the system resource manager (see `C23.srm_wake`). -/
theorem srm_no_lost_wakeup {s : State} (h : Reachable s) (sd : Side) (f : Nat) :
    (s.pc sd f = .waiting → s.sem sd f = 0 → s.objQ sd = [] ∧ f ∈ s.procQ sd) ∧
    (s.items sd f ≠ [] → s.quit sd f = false → s.pc sd f = .popping ∨ 0 < s.sem sd f) ∧
    (s.pc sd f = .waiting → s.items sd f ≠ [] → s.quit sd f = false →
      ∃ s', step s (.semWait sd f) = .ok s' .ok) :=
  C23.srm_wake h sd f

open MiniGop in
/-- C03: with the code's own `is_delayed_intra`, after the EOS picture every submitted picture has left the pre-assignment
    buffer exactly once (nothing stranded, for every stream length, level count and intra period). -/
theorem eos_flush_complete (levels : Nat) (lowDelay : Bool) (P : Int) (period : Nat) (split : List Pic → List (List Pic))
    (hsplit : ∀ b, ((split b).flatten).Perm b) (ps : List Pic) (last : Pic) (hlast : last.eos = true) :
    (MiniGop.run levels lowDelay (isDelayedIntra P period) split (ps ++ [last])).sent.Perm (ps ++ [last]) ∧
    (MiniGop.run levels lowDelay (isDelayedIntra P period) split (ps ++ [last])).buf = [] ∧
    (MiniGop.run levels lowDelay (isDelayedIntra P period) split (ps ++ [last])).delayed = none :=
  C03.flush_complete_code levels lowDelay P period split hsplit ps last hlast

end C11
