/-
  C12 — svt_av1_enc_set_parameter accepts exactly the documented parameter domain.
  `Gen.Config` is regenerated from EbEncHandle.c on every run; `Spec.ConfigDomain.CodeDomain` is hand-written.
  Property theorems only.
-/
import SvtVerif.Lemmas.ConfigDefaults

namespace C12
open Gen.Config CSem Lemmas.Config Spec.ConfigDomain
set_option maxRecDepth 8000

/-- **Main theorem (every value of every member; no sampling).** For any prior state `s` of the handle and any
    configuration `c` whatsoever, `set_default_configuration_parameters; copy_api_from_app; verify_settings`
    returns EB_ErrorNone exactly when every conjunct of the hand-written domain holds. -/
theorem accept_iff_codeDomain (s : Scs) (c : Cfg) :
    setParameterAccepts s c = true ↔ CodeDomain s c :=
  accept_iff_codeDomain_aux s c

/-- Rejection is always attributable to a rule: a rejected configuration violates at least one conjunct. -/
theorem reject_iff_not_codeDomain (s : Scs) (c : Cfg) :
    setParameterAccepts s c = false ↔ ¬ CodeDomain s c := by
  rw [← accept_iff_codeDomain]; simp

/-- The hand-written domain is executable: its Boolean form (what the driver evaluates on concrete configurations to
    decide whether the real API deviates from the specification) is equivalent to it. -/
theorem spec_executable (s : Scs) (c : Cfg) : codeDomainB s c = true ↔ CodeDomain s c := codeDomainB_iff s c

/-- Non-vacuity: the library defaults with a 64x64 picture are in the domain. -/
example : CodeDomain {} (dfltWH 64 64) := (accept_iff_codeDomain _ _).1 (by decide)

/-! ### Places where the code's domain differs from the documented one (known findings F10).
    Each is a concrete configuration (library defaults, 64x64, plus the named member). -/

/-- MinQpAllowed is documented `[0 - 63]`; 63 is rejected (with rate control on). -/
theorem dev_min_qp_63_rejected :
    setParameterAccepts {} { dfltWH 64 64 with rate_control_mode := 1, min_qp_allowed := 63, max_qp_allowed := 63, intra_period_length := 31 } = false := by decide
/-- CDEFLevel is documented `[0-5]`; 5 is rejected. -/
theorem dev_cdef_level_5_rejected : setParameterAccepts {} { dfltWH 64 64 with cdef_level := 5 } = false := by decide
/-- TileCol is documented `[0-6]`; 5 is rejected. -/
theorem dev_tile_columns_5_rejected : setParameterAccepts {} { dfltWH 64 64 with tile_columns := 5 } = false := by decide
/-- CompressedTenBitFormat is documented `[0-1]`; 1 is rejected. -/
theorem dev_compressed_ten_bit_rejected : setParameterAccepts {} { dfltWH 64 64 with compressed_ten_bit_format := 1 } = false := by decide
/-- EncoderColorFormat is documented `[0-3]`; 2 (4:2:2) is rejected … -/
theorem dev_color_format_422_rejected : setParameterAccepts {} { dfltWH 64 64 with encoder_color_format := 2, profile := 2 } = false := by decide
/-- … and 0 (4:0:0) is silently turned into 4:2:0 and accepted. -/
theorem dev_color_format_400_accepted : setParameterAccepts {} { dfltWH 64 64 with encoder_color_format := 0 } = true := by decide
/-- SourceHeight is documented `[0 - 2304]`; 32 and 2304 are rejected. -/
theorem dev_height_32_rejected : setParameterAccepts {} (dfltWH 64 32) = false := by decide
theorem dev_height_2304_rejected : setParameterAccepts {} (dfltWH 64 2304) = false := by decide
/-- PredStructure is documented `[0-2]` but is never validated (it is overwritten with 2): 77 is accepted. -/
theorem dev_pred_structure_unchecked : setParameterAccepts {} { dfltWH 64 64 with pred_structure := 77 } = true := by decide
/-- MaxQpAllowed is documented `[0 - 63]` but is ignored in CQP mode: 200 is accepted. -/
theorem dev_max_qp_unchecked_in_cqp : setParameterAccepts {} { dfltWH 64 64 with max_qp_allowed := 200 } = true := by decide
/-- FilmGrain is documented `[0-50]` but is not validated: 1000 is accepted. -/
theorem dev_film_grain_unchecked : setParameterAccepts {} { dfltWH 64 64 with film_grain_denoise_strength := 1000 } = true := by decide
/-- AltRefNframes is documented `[0-10]`; the code accepts up to 13. -/
theorem dev_altref_nframes_13_accepted : setParameterAccepts {} { dfltWH 64 64 with altref_nframes := 13 } = true := by decide
/-- The picture size is validated after truncation to 16 bits: width 65600 (= 65536 + 64) is accepted. -/
theorem dev_width_truncated_to_16_bits : setParameterAccepts {} (dfltWH 65600 64) = true := by decide

/-! ### Memory safety of the copy that precedes validation (finding F4) -/

/-- With the documented HME region counts (≤ 2) and no manual prediction structure the copy stays inside the arrays. -/
theorem copy_in_bounds (s : Scs) (c : Cfg) (hs : s.oob = 0) (hm : c.enable_manual_pred_struct = 0)
    (hw : c.number_hme_search_region_in_width ≤ 2) (hh : c.number_hme_search_region_in_height ≤ 2) :
    setParameterOob s c = false := by
  have hw' : ¬ (c.number_hme_search_region_in_width > 2) := by omega
  have hh' : ¬ (c.number_hme_search_region_in_height > 2) := by omega
  simp [setParameterOob, hm, hw', hh', hs]

/-- `copy_api_from_app` runs before `verify_settings`: a region count of 3 writes outside the two-entry arrays of the
    sequence control set, whether or not the configuration is later rejected. -/
theorem copy_out_of_bounds_witness :
    setParameterOob {} { dfltWH 64 64 with number_hme_search_region_in_width := 3 } = true := by decide

/-- Worse: with HME disabled the region counts are not validated at all, so an **accepted** configuration can make the
    copy loop write far outside the arrays. -/
theorem accepted_yet_out_of_bounds :
    setParameterAccepts {} { dfltWH 64 64 with enable_hme_flag := 0, number_hme_search_region_in_width := 1000 } = true ∧
    setParameterOob {} { dfltWH 64 64 with enable_hme_flag := 0, number_hme_search_region_in_width := 1000 } = true := by
  constructor <;> decide

/-- The normal form agrees with the operational composition on the defaults (sanity link between the two generated forms). -/
example : setParameterAcceptsOperational {} (dfltWH 64 64) = setParameterAccepts {} (dfltWH 64 64) := by decide

end C12
