/-
  C12 — svt_av1_enc_set_parameter accepts exactly the documented parameter domain.
  `Gen.Config` is regenerated from EbEncHandle.c on every run; `Spec.ConfigDomain.CodeDomain` is hand-written.
  Property theorems only.
-/
import SvtVerif.Lemmas.ConfigDefaults

namespace C12
open Gen.Config CSem Lemmas.Config Spec.ConfigDomain
set_option maxRecDepth 8000

/-- **Main theorem (every value of every member; no sampling).** For any prior state `s` of the handle and any
    configuration `c` whose members hold values of their C types (`WellTyped`: every `uint32_t` member in
    [0, 2^32), every array of its declared length, ...), `set_default_configuration_parameters; copy_api_from_app;
    verify_settings` returns EB_ErrorNone exactly when every conjunct of the hand-written domain holds.  The domain is
    stated in plain integer arithmetic over the members (Spec/ConfigDomain.lean); no conjunct refers to generated code,
    so a change of any formula in the C code (effective frame rate, default intra period, look-ahead defaulting and
    capping, HME sums, tile product, the manual-prediction-structure loop, ...) breaks this theorem. -/
theorem accept_iff_codeDomain (s : Scs) (c : Cfg) (hs : s.WellTyped) (hc : c.WellTyped) :
    setParameterAccepts s c = true ↔ CodeDomain s c :=
  accept_iff_codeDomain_aux s c hs hc

/-- Non-vacuity of the typing hypotheses: the fresh-handle state and the library defaults satisfy them. -/
theorem fresh_state_wellTyped : (({} : Scs)).WellTyped := by constructor <;> decide
theorem defaults_wellTyped : (dfltWH 64 64).WellTyped := by constructor <;> decide

/-- Rejection is always attributable to a rule: a rejected configuration violates at least one conjunct. -/
theorem reject_iff_not_codeDomain (s : Scs) (c : Cfg) (hs : s.WellTyped) (hc : c.WellTyped) :
    setParameterAccepts s c = false ↔ ¬ CodeDomain s c := by
  rw [← accept_iff_codeDomain s c hs hc]; simp

/-- **Manual prediction structures, for every list of entries**: the translated validation loops of verify_settings
    (nested `for` loops with a per-entry flag and a write into the configuration copy) accept exactly the structures
    described by `validManualPredStruct` (proved by induction over the loop, `Lemmas.Config.block92_spec`). -/
theorem manual_pred_struct_rule (s : Scs) (c : Cfg) (hs : s.WellTyped) (hc : c.WellTyped) :
    rej92 s c = false ↔
      (c.enable_manual_pred_struct = 0 ∨ validManualPredStruct c.manual_pred_struct_entry_num c.pred_struct) :=
  rej92_iff s c hs hc

/-- The hand-written domain is executable: its Boolean form (what the driver evaluates on concrete configurations to
    decide whether the real API deviates from the specification) is equivalent to it. -/
theorem spec_executable (s : Scs) (c : Cfg) : codeDomainB s c = true ↔ CodeDomain s c := codeDomainB_iff s c

/-- Non-vacuity: the library defaults with a 64x64 picture are in the domain. -/
example : CodeDomain {} (dfltWH 64 64) := (accept_iff_codeDomain _ _ fresh_state_wellTyped defaults_wellTyped).1 (by decide)

/-! ### Places where the code's domain differs from the documented one (known findings F10).
    Each is a concrete configuration (library defaults, 64x64, plus the named member). -/

/-- MinQpAllowed is documented `[0 - 63]`; 63 is rejected (with rate control on). -/
theorem dev_min_qp_63_rejected :
    setParameterAccepts {} { dfltWH 64 64 with rate_control_mode := 1, min_qp_allowed := 63, max_qp_allowed := 63, intra_period_length := 31 } = false := by decide
/-- CDEFLevel is documented `[0-5]`; 5 is rejected. -/
theorem dev_cdef_level_5_rejected : setParameterAccepts {} { dfltWH 64 64 with cdef_level := 5 } = false := by decide
/-- TileCol is documented `[0-6]`; 5 is rejected. -/
theorem dev_tile_columns_5_rejected : setParameterAccepts {} { dfltWH 64 64 with tile_columns := 5 } = false := by decide
/-- CompressedTenBitFormat is documented `[0-1]`; 1 is rejected. -/
theorem dev_compressed_ten_bit_rejected : setParameterAccepts {} { dfltWH 64 64 with compressed_ten_bit_format := 1 } = false := by decide
/-- EncoderColorFormat is documented `[0-3]`; 2 (4:2:2) is rejected … -/
theorem dev_color_format_422_rejected : setParameterAccepts {} { dfltWH 64 64 with encoder_color_format := 2, profile := 2 } = false := by decide
/-- … and 0 (4:0:0) is silently turned into 4:2:0 and accepted. -/
theorem dev_color_format_400_accepted : setParameterAccepts {} { dfltWH 64 64 with encoder_color_format := 0 } = true := by decide
/-- SourceHeight is documented `[0 - 2304]`; 32 and 2304 are rejected. -/
theorem dev_height_32_rejected : setParameterAccepts {} (dfltWH 64 32) = false := by decide
theorem dev_height_2304_rejected : setParameterAccepts {} (dfltWH 64 2304) = false := by decide
/-- PredStructure is documented `[0-2]` but is never validated (it is overwritten with 2): 77 is accepted. -/
theorem dev_pred_structure_unchecked : setParameterAccepts {} { dfltWH 64 64 with pred_structure := 77 } = true := by decide
/-- MaxQpAllowed is documented `[0 - 63]` but is ignored in CQP mode: 200 is accepted. -/
theorem dev_max_qp_unchecked_in_cqp : setParameterAccepts {} { dfltWH 64 64 with max_qp_allowed := 200 } = true := by decide
/-- FilmGrain is documented `[0-50]` but is not validated: 1000 is accepted. -/
theorem dev_film_grain_unchecked : setParameterAccepts {} { dfltWH 64 64 with film_grain_denoise_strength := 1000 } = true := by decide
/-- AltRefNframes is documented `[0-10]`; the code accepts up to 13. -/
theorem dev_altref_nframes_13_accepted : setParameterAccepts {} { dfltWH 64 64 with altref_nframes := 13 } = true := by decide
/-- The picture size is validated after truncation to 16 bits: width 65600 (= 65536 + 64) is accepted. -/
theorem dev_width_truncated_to_16_bits : setParameterAccepts {} (dfltWH 65600 64) = true := by decide

/-- FrameRate below 1000 is taken as plain fps ("an integer number between 1 and 60", max 240 fps) but only compared with
    240 << 16: 241 is accepted. -/
theorem dev_frame_rate_241_accepted : setParameterAccepts {} { dfltWH 64 64 with frame_rate := 241 } = true := by decide
/-- 240001/1000 = 240.001 fps exceeds the documented maximum; `(num << 8) / den` truncates it to exactly 240.0. -/
theorem dev_frame_rate_240_001_accepted :
    setParameterAccepts {} { dfltWH 64 64 with frame_rate_numerator := 240001, frame_rate_denominator := 1000 } = true := by decide
/-- `num << 8` is a 32-bit shift: 16777241/1 fps (= 2^24 + 25) is validated as 25 fps. -/
theorem dev_frame_rate_numerator_wraps :
    setParameterAccepts {} { dfltWH 64 64 with frame_rate_numerator := 16777241, frame_rate_denominator := 1 } = true := by decide
/-- RateControlMode 1 with IntraPeriod 200 (both inside their documented ranges, LookAheadDistance left at its default):
    the default look-ahead becomes the intra period, which exceeds 120, and the configuration is rejected. -/
theorem dev_default_look_ahead_exceeds_120 :
    setParameterAccepts {} { dfltWH 64 64 with rate_control_mode := 1, intra_period_length := 200 } = false := by decide
/-- HighBitDepthModeDecision is documented `[0-2]`; with an 8-bit encoder it is not validated at all. -/
theorem dev_hbd_mode_decision_unchecked_8bit :
    setParameterAccepts {} { dfltWH 64 64 with enable_hbd_mode_decision := 100 } = true := by decide
/-- "Invalid manual prediction structure entry number [1 - 32]": 0 entries are accepted (the real library then divides
    by zero in prediction_structure_group_ctor). -/
theorem dev_manual_pred_struct_zero_entries :
    setParameterAccepts {} { dfltWH 64 64 with enable_manual_pred_struct := 1, manual_pred_struct_entry_num := 0 } = true := by decide
/-- "all ref frames in list1 should not exceed minigop end": the test is an `int32_t` subtraction, -2^31 passes it. -/
theorem dev_manual_pred_struct_list1_overflow :
    setParameterAccepts {} { dfltWH 64 64 with enable_manual_pred_struct := 1, manual_pred_struct_entry_num := 1, pred_struct := [{ ref_list0 := [1, 0, 0, 0], ref_list1 := [-2147483648, 0, 0, 0] }] ++ List.replicate 31 {} } = true := by decide
/-- The level-1/2 HME *height* areas are summed over the *width* region count: with one width region and two height
    regions of 300 each (total 600 > 480) the configuration is accepted. -/
theorem dev_hme_height_summed_over_width_regions :
    setParameterAccepts {} { dfltWH 64 64 with number_hme_search_region_in_width := 1, hme_level0_total_search_area_width := 32, hme_level1_search_area_in_height_array := [300, 300] } = true := by decide

/-! ### Memory safety of the copy that precedes validation (finding F4) -/

/-- A manual prediction structure with a negative entry count (or more than 32) makes the `EB_MEMCPY` of copy_api_from_app
    run outside both arrays, before anything is validated. -/
theorem copy_out_of_bounds_pred_struct :
    setParameterOob {} { dfltWH 64 64 with enable_manual_pred_struct := 1, manual_pred_struct_entry_num := 33 } = true ∧
    setParameterOob {} { dfltWH 64 64 with enable_manual_pred_struct := 1, manual_pred_struct_entry_num := -1 } = true := by
  constructor <;> decide

/-- With the documented HME region counts (≤ 2) and no manual prediction structure the copy stays inside the arrays. -/
theorem copy_in_bounds (s : Scs) (c : Cfg) (hs : s.oob = 0) (hm : c.enable_manual_pred_struct = 0)
    (hw : c.number_hme_search_region_in_width ≤ 2) (hh : c.number_hme_search_region_in_height ≤ 2) :
    setParameterOob s c = false := by
  have hw' : ¬ (c.number_hme_search_region_in_width > 2) := by omega
  have hh' : ¬ (c.number_hme_search_region_in_height > 2) := by omega
  simp [setParameterOob, h_verify_settings_block92, hm, hw', hh', hs]

/-- `copy_api_from_app` runs before `verify_settings`: a region count of 3 writes outside the two-entry arrays of the
    sequence control set, whether or not the configuration is later rejected. -/
theorem copy_out_of_bounds_witness :
    setParameterOob {} { dfltWH 64 64 with number_hme_search_region_in_width := 3 } = true := by decide

/-- Worse: with HME disabled the region counts are not validated at all, so an **accepted** configuration can make the
    copy loop write far outside the arrays. -/
theorem accepted_yet_out_of_bounds :
    setParameterAccepts {} { dfltWH 64 64 with enable_hme_flag := 0, number_hme_search_region_in_width := 1000 } = true ∧
    setParameterOob {} { dfltWH 64 64 with enable_hme_flag := 0, number_hme_search_region_in_width := 1000 } = true := by
  constructor <;> decide

/-- The normal form agrees with the operational composition on the defaults (sanity link between the two generated forms). -/
example : setParameterAcceptsOperational {} (dfltWH 64 64) = setParameterAccepts {} (dfltWH 64 64) := by decide

end C12
