/-
  C16 — allocation and OS-resource failures are reported and unwound cleanly.

  "If any single memory allocation, thread, mutex or semaphore creation fails while a session is being created,
   configured or initialised, the failing API call returns an error code, and the session can then be torn down
   without crash, hang or leak."

  Model: `Model/Unwind.lean` (EB_NEW / EB_MALLOC* / EB_CREATE_* / EB_DELETE / dctor semantics of EbObject.h,
  EbMalloc.h, EbThreads.h).  Classes: `Gen/Lifecycle.lean`, regenerated on every run by `xlate/lifecycle.py` from
  every `X_ctor` / `X_dctor` pair of the encoder library (and `svt_av1_enc_init` as the continuation of
  `svt_enc_handle_ctor`).  A constructor run is a `Script` (any order, any repetition, any early return of the
  constructor's events), so "for all scripts" covers every loop count and branch of the C constructors.

  What is proved here
    * generic (any class table): in a set of classes closed under "constructs", each of which (1) registers its
      destructor before a second thing can go wrong, (2) releases every member it creates, (3) never dereferences a
      member without a NULL test in its destructor — EVERY fault-injected construction (any k, any script, in fact
      any failure pattern) ends without crash, with an error and an EMPTY heap, or with success, no fault fired,
      and a heap that the destructor empties.
    * for the generated table: which classes form that set (`generated_good`), that the remaining classes are
      exactly the ones the translator lists (`bad_classes_agree`), and for each of those a concrete fault index
      at which the model crashes or leaks (`bad_classes_witnessed`).
  What is NOT proved: that the C code matches the tables (the translator is syntactic: member-name matching, no
  aliasing, counts and ownership flags not evaluated; tied to the real library by `harness/faultinj.c`), raw
  `malloc` calls outside the macros, errors discarded by callers (`swallowers_agree` lists the classes where the
  translator saw a discarded error code; for those "the failure is reported" is not claimed).
-/
import SvtVerif.Lemmas.Unwind
import SvtVerif.Gen.Lifecycle

namespace C16
open Unwind
set_option linter.unusedVariables false

/-- a hand-made table used by the non-vacuity examples:
    class 0 `leaf`   : two members, both released, destructor registered first            (good)
    class 1 `owner`  : a context allocated before the dctor assignment, an array of `leaf` (good)
    class 2 `sloppy` : like `leaf` but the destructor reads through member 0 without a NULL test (bad)
    class 3 `late`   : two allocations before the dctor assignment                        (bad)
    class 4 `forget` : member 1 is never released                                         (bad) -/
def exT : Table := [
  { name := "leaf", pre := [], hasDctor := true, post := [.alloc 0 .heap, .alloc 1 .mutex],
    rels := [⟨some 0, []⟩, ⟨some 1, []⟩] },
  { name := "owner", pre := [.alloc 0 .heap], hasDctor := true, post := [.alloc 1 .heap, .new 2 0, .call],
    rels := [⟨some 2, []⟩, ⟨some 1, []⟩, ⟨some 0, []⟩] },
  { name := "sloppy", pre := [], hasDctor := true, post := [.alloc 0 .heap, .alloc 1 .heap],
    rels := [⟨some 1, [0]⟩, ⟨some 0, []⟩] },
  { name := "late", pre := [.alloc 0 .heap, .alloc 1 .heap], hasDctor := true, post := [],
    rels := [⟨some 0, []⟩, ⟨some 1, []⟩] },
  { name := "forget", pre := [], hasDctor := true, post := [.alloc 0 .heap, .alloc 1 .heap],
    rels := [⟨some 0, []⟩] } ]

/-- owner: context, array, three leaves (the last one only half built), a call -/
def exScript : Script :=
  .ev 0 .stop (.ev 1 (.ev 0 .stop (.ev 1 .stop .stop)) (.ev 1 (.ev 0 .stop (.ev 1 .stop .stop))
    (.ev 1 (.ev 0 .stop .stop) (.ev 2 .stop .stop))))

/-- **Generic unwinding theorem.**  `S` closed under "constructs", every class in `S` meets the three
    obligations (`goodSet T S`).  Then for every class `c ∈ S`, every constructor run `script` and EVERY failure
    pattern `fail` (in particular `failAt k` for every `k`):
    no destructor dereferences NULL; if `EB_NEW` returns an error nothing is left allocated; if it returns
    success then no counted primitive failed, the heap holds exactly the object, and deleting the object empties
    the heap without a crash. -/
theorem unwind_no_leak_any (T : Table) (S : List Nat) (hS : goodSet T S = true) (c : Nat) (hc : c ∈ S)
    (fail : Nat → Bool) (script : Script) :
    let r := construct T fail c script
    r.st.crashed = false ∧
    (r.ok = false → r.st.heap = []) ∧
    (r.ok = true → r.st.fired = false ∧ (∀ n, n < r.st.cnt → fail n = false) ∧ r.st.heap = r.root.ids ∧
        (destroy T r).heap = [] ∧ (destroy T r).crashed = false) := by
  intro r
  have h := construct_spec T fail S (goodSet_iff T S hS) c hc script
  exact ⟨h.nocrash, fun e => (h.err_clean e).1,
    fun e => ⟨(h.ok_nofail e).1, (h.ok_nofail e).2, (h.ok_owned e).1, (h.ok_teardown e).1, (h.ok_teardown e).2⟩⟩

example : goodSet exT [0, 1] = true := by decide
example : (construct exT (failAt 7) 1 exScript).ok = false ∧ (construct exT (failAt 7) 1 exScript).st.heap = [] := by decide
example : (construct exT noFail 1 exScript).ok = true ∧ (construct exT noFail 1 exScript).st.heap.length = 11 := by decide

/-- **`unwind_no_leak` as in the design: fail exactly the k-th primitive, for every k.**  The construction either
    returns an error with an empty heap, or returns success — and then `k` was not among the primitives
    executed (`cnt ≤ k`), i.e. whenever the k-th primitive exists the error IS returned. -/
theorem unwind_no_leak (T : Table) (S : List Nat) (hS : goodSet T S = true) (c : Nat) (hc : c ∈ S)
    (k : Nat) (script : Script) :
    let r := construct T (failAt k) c script
    r.st.crashed = false ∧
    ((r.ok = false ∧ r.st.heap = []) ∨
     (r.ok = true ∧ r.st.cnt ≤ k ∧ (destroy T r).heap = [] ∧ (destroy T r).crashed = false)) := by
  intro r
  obtain ⟨h1, h2, h3⟩ := unwind_no_leak_any T S hS c hc (failAt k) script
  refine ⟨h1, ?_⟩
  cases hok : r.ok with
  | false => exact Or.inl ⟨rfl, h2 hok⟩
  | true =>
    obtain ⟨_, hn, _, hd, hcr⟩ := h3 hok
    refine Or.inr ⟨rfl, ?_, hd, hcr⟩
    by_cases hk : k < r.st.cnt
    · have := hn k hk; simp [failAt] at this
    · omega

example : ∀ k, k < 12 → (construct exT (failAt k) 1 exScript).ok = false := by decide

/-- **The failure is reported.**  If the k-th counted primitive is reached at all, `EB_NEW` returns an error
    (errors propagate through EB_NEW / EB_MALLOC*; for classes in `swallowers` the C code discards an error code
    somewhere, which the model does not do — see `swallowers_agree`). -/
theorem failure_reported (T : Table) (S : List Nat) (hS : goodSet T S = true) (c : Nat) (hc : c ∈ S)
    (k : Nat) (script : Script) (hk : k < (construct T (failAt k) c script).st.cnt) :
    (construct T (failAt k) c script).ok = false := by
  obtain ⟨_, h⟩ := unwind_no_leak T S hS c hc k script
  rcases h with h | h
  · exact h.1
  · omega

example : 3 < (construct exT (failAt 3) 1 exScript).st.cnt := by decide

/-! ### the generated table -/

/-- **The generated obligations.**  The classes of `goodClasses Lifecycle.table` (computed from the table: those
    meeting the three obligations, minus — repeatedly — those constructing a class outside the set) are closed
    under "constructs" and each meets `dctorFirst`, `covered` (created ⊆ released) and `nullTol`.
    Discharged by evaluating the whole finite table. -/
theorem generated_good : goodSet Lifecycle.table (goodClasses Lifecycle.table) = true := by decide +kernel

example : (goodClasses Lifecycle.table).length ≥ 40 := by decide +kernel

/-- **No leak, no crash, error reported — for every generated class in the good set**, every k, every run. -/
theorem generated_unwind_no_leak (c : Nat) (hc : c ∈ goodClasses Lifecycle.table) (k : Nat) (script : Script) :
    let r := construct Lifecycle.table (failAt k) c script
    r.st.crashed = false ∧
    ((r.ok = false ∧ r.st.heap = []) ∨
     (r.ok = true ∧ r.st.cnt ≤ k ∧ (destroy Lifecycle.table r).heap = [] ∧ (destroy Lifecycle.table r).crashed = false)) :=
  unwind_no_leak Lifecycle.table _ generated_good c hc k script

/-- **The classes outside the obligations are exactly the ones the translator lists** (`Lifecycle.expectedBad`,
    with names and the failing obligation in `Gen/Lifecycle.lean`): the Lean evaluation of the three obligations
    and the translator's own evaluation agree on the whole table. -/
theorem bad_classes_agree :
    (List.range Lifecycle.table.length).filter (fun c => !(Lifecycle.table.cls c).good) = Lifecycle.expectedBad := by
  decide +kernel

/-- **Negative theorems with witnesses.**  For every class that fails an obligation the model itself misbehaves:
    on the straight-line run (every constructor event once, nested constructors likewise) there is a fault index
    `k` (`k = 0`: no fault, `k > 0`: the (k-1)-th primitive fails) at which a destructor dereferences NULL, or the
    error return leaves something allocated, or deleting the completed object does. -/
theorem bad_classes_witnessed :
    ∀ c ∈ Lifecycle.expectedBad, ∃ k,
      badOutcome Lifecycle.table (if k = 0 then noFail else failAt (k - 1)) c (straight Lifecycle.table 4 c) = true := by
  intro c hc
  have h : (Lifecycle.expectedBad.all (fun c => (findWitness Lifecycle.table 4 c).isSome)) = true := by decide +kernel
  have hc' := (List.all_eq_true.mp h) c hc
  obtain ⟨k, hk⟩ := Option.isSome_iff_exists.mp hc'
  exact ⟨k, findWitness_sound _ _ _ _ hk⟩

/-- the same on the hand-made table: `sloppy` crashes when its first allocation fails, `late` leaks when its
    second one fails, `forget` leaks on a plain construct + delete -/
example : badOutcome exT (failAt 1) 2 (straight exT 2 2) = true ∧ badOutcome exT (failAt 2) 3 (straight exT 2 3) = true ∧
    badOutcome exT noFail 4 (straight exT 2 4) = true := by decide

/-- **Discarded error codes.**  The classes in whose constructor the translator found a call whose error code is
    dropped although the callee can fail by allocation are exactly `Lifecycle.expectedSwallowers`; for these the
    real library can return success from a failed allocation (confirmed by fault injection). -/
theorem swallowers_agree :
    (List.range Lifecycle.table.length).filter (fun c => (Lifecycle.table.cls c).swallow != 0) = Lifecycle.expectedSwallowers := by
  decide +kernel

/-- the good classes that neither discard an error code themselves nor construct a class that does form a good set -/
theorem generated_report_set : reportSet Lifecycle.table (reportingClasses Lifecycle.table) = true := by decide +kernel

/-- **Failure reported — generated table**: for the good classes that neither discard an error code themselves
    nor construct a class that does: whenever the k-th counted primitive is reached, `EB_NEW` returns an error. -/
theorem generated_failure_reported (c : Nat) (hc : c ∈ reportingClasses Lifecycle.table)
    (k : Nat) (script : Script) (hk : k < (construct Lifecycle.table (failAt k) c script).st.cnt) :
    (construct Lifecycle.table (failAt k) c script).ok = false := by
  have hS := generated_report_set
  have hg : goodSet Lifecycle.table (reportingClasses Lifecycle.table) = true := by
    unfold reportSet at hS; simp only [Bool.and_eq_true] at hS; exact hS.1
  exact failure_reported Lifecycle.table _ hg c hc k script hk

example : (reportingClasses Lifecycle.table).length ≥ 40 := by decide +kernel

end C16
