/-
  C14 — API calls in any order return error codes instead of crashing or blocking.

  The NULL-guard table and the lock table are regenerated from EbEncHandle.c / EbDecHandle.c on every run
  (`Gen/ApiTables.lean`, xlate/apitables.py).  The theorems below are about those tables and about the
  protocol automaton `ApiProto.step` that consults them; the translator's classification lists
  (`guardedParams`, `unguardedParams`, ...) are re-derived here with Lean's own definitions, so the same file
  proves the positive claims for the parameters that are guarded and the negative claims (with a witness path)
  for those that are not -- whatever the current tree looks like.
  Property theorems only; helper lemmas live in SvtVerif/Lemmas/ApiProto.lean.
-/
import SvtVerif.Gen.ApiTables
import SvtVerif.Lemmas.ApiProto

namespace C14
open ApiProto Gen.ApiTables

/-! ### NULL arguments -/

/-- The guard criterion evaluated on the table is exact: an entry is "guarded" iff no path that a call with a
    NULL argument can take ever touches the pointer. -/
theorem guard_criterion_exact (e : GuardEntry) :
    entryGuarded e = true ↔ ∀ p ∈ e.paths, ∀ l, runNullEvs p.evs ≠ .nullAccess l := by
  constructor
  · exact entryGuarded_sound e
  · intro h
    cases hg : entryGuarded e with
    | true => rfl
    | false =>
      obtain ⟨p, hp, l, hl⟩ := entryGuarded_complete e hg
      exact absurd hl (h p hp l)

/-- **Guarded parameters.** For every (function, pointer parameter) the translator lists as guarded, on every
    entry-to-return path of the C function a NULL argument is never dereferenced (nor handed to a callee that
    dereferences it): the call returns. -/
theorem api_null_guarded :
    ∀ pr ∈ guardedParams, ∃ e, findGuard tables pr.1 pr.2 = some e ∧
      ∀ p ∈ e.paths, ∀ l, runNullEvs p.evs ≠ .nullAccess l := by
  have h : ∀ pr ∈ guardedParams, isGuardedIn tables pr = true := by decide
  exact fun pr hpr => isGuardedIn_sound tables pr (h pr hpr)

example : ("svt_av1_enc_init", "svt_enc_component") ∈ guardedParams := by decide

/-- **NULL returns an error code.** For the listed parameters every path a NULL argument can take returns the
    same, non-zero, statically known error code. -/
theorem api_null_returns_error :
    ∀ t ∈ nullErrorParams, nullClass tables t.1 t.2.1 = .ret t.2.2 ∧ t.2.2 ≠ 0 := by decide

example : ("svt_av1_enc_set_parameter", "svt_enc_component", EB_ErrorBadParameter) ∈ nullErrorParams := by decide

/-- **Unguarded parameters (negative result).** For every pointer the translator lists as unguarded -- parameters and
    first-level derived pointers such as `*p_buffer` -- there is a concrete path of the C function on which a NULL
    value is dereferenced (witness: the path and the source line).  On the unchanged tree this list contains
    send_picture / get_packet / get_recon / get_stream_info (handle), get_packet / get_recon (p_buffer),
    get_stream_info (info), set_parameter (config_struct), stream_header (output_stream_ptr),
    release_out_buffer (*p_buffer), dec_frame (data), dec_get_picture (p_buffer): finding F7. -/
theorem api_null_unguarded_witness :
    ∀ pr ∈ unguardedParams ++ unguardedDerived, ∃ e, findGuard tables pr.1 pr.2 = some e ∧
      ∃ p ∈ e.paths, ∃ l, runNullEvs p.evs = .nullAccess l := by
  have h : ∀ pr ∈ unguardedParams ++ unguardedDerived, hasWitnessIn tables pr = true := by decide
  exact fun pr hpr => hasWitnessIn_sound tables pr (h pr hpr)

/-- The classification is total: every entry of the guard table is in one of the lists ... -/
theorem api_null_classification_total :
    ∀ e ∈ tables.guards, (e.fn, e.ptr) ∈ guardedParams ++ guardedDerived ++ unguardedParams ++ unguardedDerived := by decide

/-- ... and unambiguous: no pointer is listed both as guarded and as unguarded. -/
theorem api_null_classification_disjoint :
    ∀ pr ∈ guardedParams ++ guardedDerived, pr ∉ unguardedParams ++ unguardedDerived := by decide

/-! ### Mutexes -/

/-- **Every path balanced.** Every entry-to-return path of every API function releases each mutex it acquired,
    never unlocks a mutex it does not hold and never locks one twice. -/
theorem api_locks_balanced : allBalanced tables = true := by decide

/-- Hence after any sequence of API calls, each taking any of its paths, no mutex remains held. -/
theorem api_no_mutex_left_held (ps : List LockPath) (h : ∀ p ∈ ps, ∃ e ∈ tables.locks, p ∈ e.paths) :
    runCalls [] ps = .done [] := by
  apply runCalls_balanced
  intro p hp
  obtain ⟨e, he, hpe⟩ := h p hp
  exact List.all_eq_true.mp (List.all_eq_true.mp api_locks_balanced e he) p hpe

example : runCalls [] (findLocks tables "svt_av1_enc_set_parameter") = .done [] := by decide

/-- For *every* call sequence over the alphabet the automaton never predicts a call blocked on a mutex left
    behind by an earlier call, and ends with no mutex held (induction over the call list). -/
theorem no_call_blocks_on_leftover_mutex (ops : List Op) :
    (∀ m, Res.blocked m ∉ run tables ops) ∧ (finalState tables ops).held = [] := by
  have := runFrom_held_nil tables api_locks_balanced ops {} rfl
  exact ⟨this.2, this.1⟩

/-- **A rejected configuration leaves the handle usable.** After any number `n` of rejected set_parameter calls on a
    fresh handle, a valid set_parameter returns EB_ErrorNone (it does not block) and the handle is Configured. -/
theorem reject_then_accept (n : Nat) :
    run tables ([.initHandle] ++ List.replicate (n + 1) (.setParam .invalid) ++ [.setParam .valid]) =
        [.ok] ++ List.replicate (n + 1) (.err EB_ErrorBadParameter) ++ [.ok] ∧
      (finalState tables ([.initHandle] ++ List.replicate (n + 1) (.setParam .invalid) ++ [.setParam .valid])).enc.proto
        = .Configured := by
  have h0 : step tables {} .initHandle = (.ok, stHandle) := by decide
  have h1 : step tables stHandle (.setParam .invalid) = (.err EB_ErrorBadParameter, stRejected) := by decide
  have hr : step tables stRejected (.setParam .invalid) = (.err EB_ErrorBadParameter, stRejected) := by decide
  have hv : step tables stRejected (.setParam .valid) = (.ok, stConfigured) := by decide
  have hrun := runFrom_rejects tables hr hv n
  constructor
  · simp only [run, List.replicate_succ, List.cons_append, List.nil_append, runFrom, h0, h1, Res.continues,
      ↓reduceIte, hrun]
  · simp only [finalState, List.replicate_succ, List.cons_append, List.nil_append, runFrom, h0, h1, Res.continues,
      ↓reduceIte, hrun]
    decide

example : run tables [.initHandle, .setParam .invalid, .setParam .valid] = [.ok, .err EB_ErrorBadParameter, .ok] := by decide

/-- The automaton does detect a leaked mutex: with the lock table of svt_av1_enc_set_parameter as it was before commit
    e6b9284 (rejecting path keeps `config_mutex`, finding F3) the tables are not balanced and the sequence
    [set_parameter(invalid), set_parameter(valid)] is predicted to block on that mutex. -/
theorem f3_leak_detected :
    allBalanced (leakyTables tables) = false ∧
    run (leakyTables tables) [.initHandle, .setParam .invalid, .setParam .valid] =
      [.ok, .err EB_ErrorBadParameter, .blocked "config_mutex"] := by decide

/-! ### Protocol -/

/-- Every call of every sequence gets exactly one predicted class (ok, an error code, a set of codes, the documented
    blocking wait, UNDEFINED with the reason, blocked-on-mutex, or skipped after a call that does not return). -/
theorem run_total (ops : List Op) : (run tables ops).length = ops.length := runFrom_length tables ops {}

/-- The nominal life cycle is predicted to return EB_ErrorNone at every call and to end without a handle. -/
theorem nominal_walk_ok :
    run tables [.initHandle, .setParam .valid, .encInit, .streamHeader, .streamHeaderRelease, .send 3, .sendEos, .drain,
                .deinit, .deinitHandle] = List.replicate 10 .ok ∧
    (finalState tables [.initHandle, .setParam .valid, .encInit, .streamHeader, .streamHeaderRelease, .send 3, .sendEos, .drain,
                .deinit, .deinitHandle]).enc.proto = .NoHandle ∧
    run tables [.decInitHandle, .decSetParam false, .decInit, .decFrame, .decDeinit, .decDeinitHandle] = List.replicate 6 .ok := by
  decide

/-- With no handle, the automaton's prediction agrees with the table (`nullHandlePredictionOk`): an error code exactly
    where every NULL path of the handle parameter returns that non-zero code, `undef (null fn ptr)` only where the table
    has a path dereferencing `ptr` -- never "ok". -/
theorem null_handle_predictions :
    ∀ o ∈ [Op.setParam .valid, .encInit, .streamHeader, .deinit, .deinitHandle, .send 1, .getPacket false, .getRecon,
           .getStreamInfo, .decSetParam false, .decInit, .decFrame, .decGetPicture, .decDeinit, .decDeinitHandle],
      nullHandlePredictionOk tables o = true := by
  decide

end C14
