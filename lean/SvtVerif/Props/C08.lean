/-
  C08 — the decoder's output is correct / consistent (frame-level part).

  No reference AV1 decoder exists in this sandbox.  What is proved here, for ALL streams, is the frame-level behaviour a
  conforming decoder must have (AV1 §7.18 output process, §7.20 reference update, §7.21 reference loading), stated on the
  executable model `Dpb.decStep`/`Dpb.runDec` that `checks/c08.py` runs against the REAL decoder's output list, plus:
  the decoder's configuration (8-bit vs 16-bit internal pipeline, number of threads) can only influence the output
  through the per-frame reconstruction function (`pipelines_agree`), and the encoder's film-grain random-seed rule never
  produces the seed 0.  Sample-level equality of the two pipelines / of the thread counts is H-recon for C08: it is
  exercised on real streams, not proved.
-/
import SvtVerif.Lemmas.DpbRefine

namespace C08
open Dpb

variable {P S : Type}

/-- **Decoder configuration enters only through the reconstruction function.**  Two decoder configurations (internal
    pipeline bit depth, thread count) whose per-frame reconstruction functions agree on the payloads of the stream, for any
    references, leave the same DPB and output the same picture at every position — whatever the headers are. -/
theorem pipelines_agree (R8 R16 : P → List S → S) (d : State S) (fs : List (Frame P))
    (h : ∀ f ∈ fs, ∀ refs, R8 f.payload refs = R16 f.payload refs) :
    runDec R8 d fs = runDec R16 d fs :=
  runDec_congr R8 R16 d fs h

/-- The hypothesis of `pipelines_agree` cannot be dropped: one differing reconstruction shows up in the output. -/
example :
    let R8 : Nat → List Nat → Nat := fun p _ => p
    let R16 : Nat → List Nat → Nat := fun p _ => p + 1
    let d : State Nat := fun _ => { pic := 0, frameType := .inter, showable := false }
    let f : Frame Nat := { frameType := .key, showFrame := true, showableFrame := false, showExisting := none, refreshFlags := 0, refIdx := [], payload := 4 }
    outputs (runDec R8 d [f]).2 = [4] ∧ outputs (runDec R16 d [f]).2 = [5] := by decide

/-- **Output process.**  The decoder outputs one picture for exactly the headers with `show_frame = 1` or
    `show_existing_frame = 1`, in bitstream order (per-position statement and count). -/
theorem dec_output_count (R : P → List S → S) (d : State S) (fs : List (Frame P)) :
    (runDec R d fs).2.map Option.isSome = fs.map producesOutput ∧
    (outputs (runDec R d fs).2).length = (fs.filter producesOutput).length :=
  ⟨runDec_isSome R d fs, outputs_length R d fs⟩

/-- **What is output.**  The `i`-th header outputs: for `show_existing_frame`, the picture in the designated slot of the DPB
    left by the first `i` headers; for a coded header with `show_frame = 1`, its own reconstruction from that DPB. -/
theorem dec_output_order (R : P → List S → S) (d : State S) (fs : List (Frame P)) (i : Nat) (f : Frame P)
    (h : fs[i]? = some f) :
    (runDec R d fs).2[i]? = some
      (match f.showExisting with
       | some k => some ((runDec R d (fs.take i)).1 k).pic
       | none => if f.showFrame then some (R f.payload (refsOf (runDec R d (fs.take i)).1 f)) else none) := by
  rw [runDec_getElem? R d fs i f h]
  unfold decStep
  cases f.showExisting with
  | some k => simp only; split <;> rfl
  | none => rfl

example :
    let R : Nat → List Nat → Nat := fun p refs => p + refs.sum
    let d : State Nat := fun _ => { pic := 0, frameType := .inter, showable := false }
    let fs : List (Frame Nat) :=
      [ { frameType := .key, showFrame := true, showableFrame := false, showExisting := none, refreshFlags := 0, refIdx := [], payload := 100 },
        { frameType := .inter, showFrame := false, showableFrame := true, showExisting := none, refreshFlags := 2, refIdx := [0,0,0,0,0,0,0], payload := 1 },
        { frameType := .inter, showFrame := true, showableFrame := false, showExisting := none, refreshFlags := 0, refIdx := [0,1,0,0,0,0,0], payload := 2 },
        { frameType := .inter, showFrame := true, showableFrame := false, showExisting := some 1, refreshFlags := 0, refIdx := [], payload := 0 } ]
    (runDec R d fs).2 = [some 100, none, some 1303, some 701] := by decide

/-- **Reference update (§7.20)** of the decoder model, bit by bit; `0xFF` is inferred for a shown key frame. -/
theorem dpb_refresh_spec (R : P → List S → S) (d : State S) (f : Frame P) (h : f.showExisting = none) (j : Fin 8) :
    (decStep R d f).1 j =
      if (effRefresh f).testBit j.val
      then { pic := R f.payload (refsOf d f), frameType := f.frameType, showable := f.showableFrame }
      else d j :=
  (decStep_coded R d f h).1 j

/-- A shown key frame refreshes every slot, whatever `refresh_frame_flags` field the header model carries. -/
theorem shown_key_refreshes_all (R : P → List S → S) (d : State S) (f : Frame P) (h : IsShownKey f) (j : Fin 8) :
    ((decStep R d f).1 j).pic = R f.payload [] := by
  rw [decStep_shownKey R d f h]

/-- **`show_existing_frame` (§7.21).**  Showing a stored key frame reloads all eight slots with it; showing any other stored
    frame leaves the DPB untouched; in both cases the stored picture is output. -/
theorem show_existing_key_refreshes_all (R : P → List S → S) (d : State S) (f : Frame P) (i : Fin 8)
    (h : f.showExisting = some i) :
    ((d i).frameType = .key → decStep R d f = (fun _ => d i, some (d i).pic)) ∧
    ((d i).frameType ≠ .key → decStep R d f = (d, some (d i).pic)) :=
  ⟨decStep_showExisting_key R d f i h, decStep_showExisting_nonkey R d f i h⟩

example :
    let R : Nat → List Nat → Nat := fun p _ => p
    let d : State Nat := fun j => { pic := j.val, frameType := if j.val = 2 then .key else .inter, showable := true }
    let f2 : Frame Nat := { frameType := .inter, showFrame := true, showableFrame := false, showExisting := some 2, refreshFlags := 0, refIdx := [], payload := 9 }
    let f4 : Frame Nat := { f2 with showExisting := some 4 }
    (List.finRange 8).map (fun j => ((decStep R d f2).1 j).pic) = [2, 2, 2, 2, 2, 2, 2, 2] ∧
    (List.finRange 8).map (fun j => ((decStep R d f4).1 j).pic) = [0, 1, 2, 3, 4, 5, 6, 7] ∧ (decStep R d f4).2 = some 4 := by decide

/-- Every output picture is a reconstruction made while decoding the stream (or was in the DPB at the start): the decoder
    never outputs anything else. -/
theorem output_is_a_reconstruction (R : P → List S → S) (d : State S) (fs : List (Frame P)) (x : S)
    (hx : x ∈ outputs (runDec R d fs).2) : (∃ i, x = (d i).pic) ∨ x ∈ recons R d fs :=
  output_mem R d fs x hx

/-- **Film-grain random seed** (`uint16_t seed += 3381; if (!seed) seed += 7391;`, EbPictureDecisionProcess.c l.5088-5092):
    one update step never yields 0, from ANY 16-bit value. -/
theorem film_grain_seed_step_never_zero (s : BitVec 16) : fgSeedNext s ≠ 0#16 :=
  fgSeedNext_ne_zero s

/-- The seed written into the film-grain parameters of the `n`-th picture (start value 7391, EbSequenceControlSet.c l.188)
    is never 0, for every `n` — including after the 16-bit counter wraps. -/
theorem film_grain_seed_never_zero (n : Nat) : fgSeed n ≠ 0#16 :=
  fgSeed_ne_zero n

/-- The wrap-around branch is real: from 62155 the sum is 65536 ≡ 0, and the rule continues with 7391. -/
example : fgSeedNext 62155#16 = 7391#16 := by decide
example : fgSeed 1 = 10772#16 ∧ fgSeed 2 = 14153#16 := by decide

end C08
