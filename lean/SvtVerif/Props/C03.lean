/-
  C03 — one packet per submitted picture, in order, with timestamps and EOS.
  Property theorems about the executable model `Model/Packetize.lean` of the tail of `packetization_kernel`
  (EbPacketizationProcess.c l.621-912: reorder queue, `count_frames_in_next_tu`, `collect_frames_info`,
  `encode_tu`, undisplayed-frame stack, EOS flag movement, `release_frames`) and about `Model/MiniGop.lean`, the
  pre-assignment buffer of `picture_decision_kernel` (EbPictureDecisionProcess.c l.4738-4816, 5570-5593).
  Helper lemmas: Lemmas/Packetize.lean, Lemmas/MiniGop.lean.
-/
import SvtVerif.Lemmas.Packetize
import SvtVerif.Lemmas.MiniGop

namespace C03
open Packetize

/-- **Property (model level), all stream lengths, all GOP shapes, all window-respecting arrival orders.**

    Let `fs` be the frames reaching packetization listed in decode order (N' = `fs.length` ≥ 1 frames for `N`
    submitted pictures: alt-ref pictures contribute two frames), such that
    * `validGop fs N`: the display process over `fs` shows pictures `0 … N−1` in order, each once, at most
      `REF_FRAMES = 8` decoded frames wait for their show-existing at any time, the last decoded frame is shown;
    * no more than `T < D` consecutive frames are non-shown;
    * `terminating_picture_number` is the last decode order and the pts are monotone in the display number;
    and let `arrivals` be ANY order in which these frames reach the kernel (each decode order exactly once) that
    never runs `D − T` or more ahead of the oldest missing decode order (`D = 2048` in the code).  Then the
    kernel posts exactly `N` packets; the k-th packet carries the pts of the k-th submitted picture; `dts = pts`;
    exactly the last packet carries EOS and nothing follows it; no queue slot is overwritten while occupied; the
    undisplayed stack ends empty.  There is no bound on `N` (the queue wraps around any number of times). -/
theorem packetize_spec (D T : Nat) (hT : T < D) (term : Option Nat) (ptsOf : Nat → Int) (fs : List Frame)
    (N : Nat) (arrivals : List (Nat × Frame))
    (hmono : ∀ a b, a ≤ b → ptsOf a ≤ ptsOf b) (hne : fs ≠ [])
    (hvalid : validGop fs N = true) (hruns : hiddenRunsLe T 0 fs = true)
    (hpts : ∀ f ∈ fs, f.pts = ptsOf f.disp) (hterm : term = some (fs.length - 1))
    (hperm : (arrivals.map (·.1)).Perm (List.range fs.length))
    (hfr : ∀ x, x ∈ arrivals → fs[x.1]? = some x.2)
    (hwin : Reorder.Windowed (D - T) (arrivals.map (·.1))) :
    (packets (runQ D term arrivals)).length = N ∧
    (packets (runQ D term arrivals)).map (·.pts) = (List.range N).map ptsOf ∧
    (∀ b ∈ packets (runQ D term arrivals), b.dts = b.pts) ∧
    (packets (runQ D term arrivals)).map (·.eos) = List.replicate (N - 1) false ++ [true] ∧
    (runQ D term arrivals).clobbered = false ∧
    (runQ D term arrivals).out.stack = [] := by
  obtain ⟨r, hclob⟩ := run_spec D T hT term ptsOf fs N arrivals hmono hne hvalid hruns hpts hterm hperm hfr hwin
  obtain ⟨lastP, rest, hpk, hle, hre⟩ := r.eos
  have hlen : (packets (runQ D term arrivals)).length = N := by simpa [packets] using r.length
  refine ⟨hlen, r.pts, ?_, ?_, hclob, r.stack⟩
  · intro b hb; exact r.dts b (by simpa [packets] using hb)
  · have hl : rest.length = N - 1 := by
      have := r.length
      simp only at this
      rw [hpk] at this
      simp only [List.length_cons] at this
      omega
    show ((runQ D term arrivals).out.pktsRev.reverse).map (·.eos) = _
    rw [hpk, List.reverse_cons, List.map_append, List.map_cons, List.map_nil, hle]
    congr 1
    rw [List.eq_replicate_iff]
    refine ⟨by simp [hl], ?_⟩
    intro x hx
    obtain ⟨b, hb, rfl⟩ := List.mem_map.1 hx
    exact hre b (List.mem_reverse.1 hb)

/-- Non-vacuity of `packetize_spec`: key frame + one 3-level mini-GOP (decode order: pictures 0, 4, 2, 1, 3; pictures
    4 and 2 are decoded without being shown and displayed later through show-existing frames), arriving out of
    decode order, depth 8, `T = 2`; the model posts pts 1000, 1010, …, 1040 with EOS on the last packet. -/
def exFrames : List Frame :=
  [ { disp := 0, pts := 1000, shown := true,  hse := false, alt := false, priv := 11, outMeta := 0 },
    { disp := 4, pts := 1040, shown := false, hse := false, alt := false, priv := 15, outMeta := 0 },
    { disp := 2, pts := 1020, shown := false, hse := false, alt := false, priv := 13, outMeta := 0 },
    { disp := 1, pts := 1010, shown := true,  hse := true,  alt := false, priv := 12, outMeta := 0 },
    { disp := 3, pts := 1030, shown := true,  hse := true,  alt := false, priv := 14, outMeta := 0 } ]

def exArrivals : List (Nat × Frame) :=
  [2, 0, 1, 4, 3].filterMap (fun d => (exFrames[d]?).map (fun f => (d, f)))

example :
    (packets (runQ 8 (some 4) exArrivals)).map (·.pts) = [1000, 1010, 1020, 1030, 1040] ∧
    (packets (runQ 8 (some 4) exArrivals)).map (·.eos) = [false, false, false, false, true] := by
  have h := packetize_spec 8 2 (by decide) (some 4) (fun k => 1000 + 10 * (k : Int)) exFrames 5 exArrivals
    (by intro a b hab; show (1000 : Int) + 10 * (a : Int) ≤ 1000 + 10 * (b : Int); omega) (by decide) (by decide) (by decide) (by decide) (by decide)
    (by decide) (by decide) (by decide)
  exact ⟨h.2.1, h.2.2.2.1⟩

/-- `N = 0`: nothing reaches packetization, no packet is posted — in particular no EOS packet comes out of this
    kernel (whether the library synthesises one elsewhere is outside this model; checked end to end). -/
theorem packetize_empty (D : Nat) (term : Option Nat) :
    packets (runQ D term []) = [] ∧ (runQ D term []).clobbered = false := ⟨rfl, rfl⟩

/-- The only `N` accepted for an empty frame list is 0. -/
theorem validGop_nil (N : Nat) : validGop [] N = true ↔ N = 0 := by
  simp only [validGop, lastShown, List.foldl_nil, Bool.true_and, beq_iff_eq, Option.some.injEq, Prod.mk.injEq,
    and_true]
  exact eq_comm

/-- **What `p_app_private` of a packet is, as the code stands** (every GOP, every arrival order, no hypothesis):
    the `out_meta_data` of one of the frames (`collect_frames_info` l.501) — not the application's pointer. -/
theorem packet_priv_is_out_meta (D : Nat) (term : Option Nat) (arrivals : List (Nat × Frame)) :
    ∀ b ∈ packets (runQ D term arrivals), ∃ x ∈ arrivals, b.priv = x.2.outMeta :=
  packets_priv D term arrivals

/-- In `/repo` `out_meta_data` is always NULL (`data_ll_head_ptr` / `app_out_data_ll_head_ptr` are only ever
    initialised, EbPictureControlSet.c:1217-1218), so every packet comes back with `p_app_private = NULL`. -/
theorem packet_priv_null (D : Nat) (term : Option Nat) (arrivals : List (Nat × Frame))
    (hmeta : ∀ x ∈ arrivals, x.2.outMeta = 0) : ∀ b ∈ packets (runQ D term arrivals), b.priv = 0 := by
  intro b hb
  obtain ⟨x, hx, he⟩ := packets_priv D term arrivals b hb
  rw [he]; exact hmeta x hx

example : ∀ x ∈ exArrivals, x.2.outMeta = 0 := by decide

/-- **Refuted sub-claim of C03 (finding F14).**  The packet does NOT carry the application-private pointer of the
    submitted picture: `collect_frames_info` (l.501) overwrites `p_app_private` with `out_meta_data`, which is
    NULL in `/repo` (both source lists are never populated).  Witness: the stream above — every submitted picture
    has a non-NULL `priv` (11…15), every packet has `priv = 0`. -/
theorem app_private_not_roundtripped :
    exFrames.map (·.priv) = [11, 15, 13, 12, 14] ∧
    (packets (runQ 8 (some 4) exArrivals)).map (·.priv) = [0, 0, 0, 0, 0] := by decide

/-- **Excluded point of `validGop` (lead, run on the real functions by harness/packetize.c).**  If the terminating
    frame has `has_show_existing` but the undisplayed stack is empty, the EOS flag is cleared on the TU packet
    (l.894-895) and never set on any other packet (`pop_undisplayed_frame` returns NULL, l.899-900): the stream
    ends without an EOS packet. -/
theorem eos_lost_when_show_existing_has_no_frame :
    (packets (runQ 8 (some 0)
      [(0, { disp := 0, pts := 0, shown := true, hse := true, alt := false, priv := 0, outMeta := 0 })])).map (·.eos)
      = [false] := by decide

/-- **Excluded point of `validGop` (room ≤ `REF_FRAMES`).**  A 9th pending frame is dropped silently by
    `push_undisplayed_frame` (l.340-343); its picture is never delivered: 10 frames in, 9 non-shown, then
    requested by a show-existing frame — the frame decoded first (picture 1, pushed last) was dropped, so the
    show-existing packet after picture 0 carries picture 2: picture 1 is never delivered. -/
theorem ninth_pending_frame_is_dropped :
    let hidden := (List.range 9).map (fun k =>
      (k, ({ disp := k + 1, pts := k + 1, shown := false, hse := false, alt := false, priv := 0, outMeta := 0 } : Frame)))
    let shownF : Nat × Frame :=
      (9, { disp := 0, pts := 0, shown := true, hse := true, alt := false, priv := 0, outMeta := 0 })
    (runQ 16 none (hidden ++ [shownF])).out.stack.length = 7 ∧
    (packets (runQ 16 none (hidden ++ [shownF]))).map (·.pts) = [0, 2] := by decide

/-! ## the real comparator of `sort_undisplayed_frame` -/

/-- **When the model's sort is the code's sort.**  `pts_descend` returns `(int)(b->pts - a->pts)`.  If the two pts differ by
    less than 2^31 in magnitude, its sign is the sign of the true difference (negative iff `b` is earlier, zero iff equal,
    positive iff `b` is later), i.e. the qsort of l.361-366 orders the pending frames exactly as `Packetize.sortStack` does.
    This is the assumption under which `packetize_spec` speaks about the C code. -/
theorem pts_descend_agrees (a b : Int) (h0 : -(2 ^ 31) ≤ b - a) (h1 : b - a < 2 ^ 31) :
    (ptsDescendC a b < 0 ↔ b < a) ∧ (ptsDescendC a b = 0 ↔ b = a) ∧ (0 < ptsDescendC a b ↔ a < b) := by
  rw [ptsDescendC_eq a b h0 h1]
  refine ⟨by omega, by omega, by omega⟩

example : ptsDescendC 1000 1010 = 10 := by decide

/-- **Excluded point of the assumption (finding F15), as the code stands.**  With pts `2·2^30` and `8·2^30` (pictures 2 and 8
    of a stream with pts step 2^30, both pending in a 4-layer mini-GOP) the comparator is NEGATIVE although picture 8 is
    later: the stack is mis-sorted and the show-existing packet of picture 2 carries the pts of picture 8 (reproduced on the
    real functions by harness/packetize.c and on the real encoder by harness/gop_e2e.c).  With a difference of exactly 2^32 the
    comparator returns 0. -/
theorem pts_descend_truncates :
    ptsDescendC (2 * 2 ^ 30) (8 * 2 ^ 30) < 0 ∧ ptsDescendC 0 (2 ^ 32) = 0 := by decide

/-! ## the pre-assignment buffer (mini-GOP formation) never strands a picture -/

open MiniGop in
/-- **flush_complete.**  For every number of hierarchical levels, every pattern of intra pictures, every stream length (in
    particular every `N mod 2^levels`), low-delay or random-access, every split of a released buffer into mini-GOPs that
    covers each buffered picture exactly once (`hsplit`; the split itself, `generate_picture_window_split` /
    `handle_incomplete_picture_window_map`, is not transcribed) and every `is_delayed_intra` that is FALSE for non-intra
    pictures and for the picture carrying `end_of_sequence_flag` (`hdelay`): if the last picture of the stream
    carries the EOS flag, then after it every picture of the stream has been handed to `send_picture_out` exactly once, the
    pre-assignment buffer is empty and no intra picture is left parked in `prev_delayed_intra`. -/
theorem flush_complete (levels : Nat) (lowDelay : Bool) (delay : Nat → Pic → Bool) (split : List Pic → List (List Pic))
    (hsplit : ∀ b, ((split b).flatten).Perm b)
    (hdelay : ∀ n p, delay n p = true → p.intra = true ∧ p.eos = false)
    (ps : List Pic) (last : Pic) (hlast : last.eos = true) :
    (MiniGop.run levels lowDelay delay split (ps ++ [last])).sent.Perm (ps ++ [last]) ∧
    (MiniGop.run levels lowDelay delay split (ps ++ [last])).buf = [] ∧
    (MiniGop.run levels lowDelay delay split (ps ++ [last])).delayed = none := by
  have hdelay' : ∀ n p, delay n p = true → cand p = true := by
    intro n p h; obtain ⟨h1, h2⟩ := hdelay n p h; simp [cand, h1, h2]
  have hrun : MiniGop.run levels lowDelay delay split (ps ++ [last]) =
      MiniGop.step levels lowDelay delay split (ps.foldl (MiniGop.step levels lowDelay delay split) MiniGop.init) last := by
    unfold MiniGop.run; rw [List.foldl_append]; rfl
  have hinv := run_inv levels lowDelay delay split hsplit hdelay' ps MiniGop.init [] inv_init
  obtain ⟨hI, hE⟩ := step_inv levels lowDelay delay split hsplit hdelay' _ _ last hinv
  obtain ⟨hb, hd⟩ := hE hlast
  rw [hrun]
  refine ⟨?_, hb, hd⟩
  rw [List.perm_iff_count]
  intro x
  have := hI.cons x
  simp only [MiniGop.out, hb, hd, Option.toList_none, List.append_nil, List.count_nil, Nat.add_zero, List.nil_append] at this
  exact this

open MiniGop in
/-- `flush_complete` with `is_delayed_intra` as the code has it (l.3739-3750, `MiniGop.isDelayedIntra`): for every
    `intra_period_length` and every `pred_struct_period` the hypothesis on the delay rule is discharged — the `end_of_sequence_flag`
    test in `is_delayed_intra` is exactly what prevents the last intra picture of a stream from being parked forever. -/
theorem flush_complete_code (levels : Nat) (lowDelay : Bool) (P : Int) (period : Nat) (split : List Pic → List (List Pic))
    (hsplit : ∀ b, ((split b).flatten).Perm b) (ps : List Pic) (last : Pic) (hlast : last.eos = true) :
    (MiniGop.run levels lowDelay (isDelayedIntra P period) split (ps ++ [last])).sent.Perm (ps ++ [last]) ∧
    (MiniGop.run levels lowDelay (isDelayedIntra P period) split (ps ++ [last])).buf = [] ∧
    (MiniGop.run levels lowDelay (isDelayedIntra P period) split (ps ++ [last])).delayed = none :=
  flush_complete levels lowDelay (isDelayedIntra P period) split hsplit
    (by
      intro n p h
      have := isDelayedIntra_cand P period n p h
      simp only [cand, Bool.and_eq_true, Bool.not_eq_true'] at this
      exact this) ps last hlast

/-- Non-vacuity / test of `flush_complete_code`: 3 levels (mini-GOP 8), 13 pictures, IDR at 0 and 6 (the second one is delayed
    by `is_delayed_intra` and sent with the next release), EOS on picture 12, the released buffer taken as one mini-GOP in
    reverse (an arbitrary "decode") order: all 13 pictures are sent. -/
example :
    let pics := (List.range 13).map fun k => ({ num := k, idr := k == 0 || k == 6, cra := false, eos := k == 12 } : MiniGop.Pic)
    let r := MiniGop.run 3 false (MiniGop.isDelayedIntra 5 8) (fun b => [b.reverse]) pics
    r.sent.map (·.num) = [0, 5, 4, 3, 2, 1, 6, 12, 11, 10, 9, 8, 7] ∧ r.buf = [] ∧ r.delayed = none := by decide

/-- What the EOS test in `is_delayed_intra` buys: a delay rule WITHOUT it (`fun _ p => p.intra`) strands the last picture of a
    stream that ends on an intra picture — it stays in `prev_delayed_intra`, is never sent, and the stream has no EOS packet. -/
theorem delay_without_eos_test_strands :
    let pics := (List.range 7).map fun k => ({ num := k, idr := k == 0 || k == 6, cra := false, eos := k == 6 } : MiniGop.Pic)
    let r := MiniGop.run 3 false (fun _ p => p.intra) (fun b => [b]) pics
    r.sent.map (·.num) = [0, 1, 2, 3, 4, 5] ∧ (r.delayed.map (·.num)) = some 6 := by decide

end C03
