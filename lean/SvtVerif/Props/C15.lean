/-
  C15 — teardown at any point releases every resource.

  "Whenever an encoder or decoder session is torn down with deinit followed by deinit_handle — after handle
   creation, after a rejected or accepted configuration, after init, mid-stream before EOS, or after draining —
   teardown returns, all library threads have exited, and no library-allocated memory, mutex or semaphore
   remains; repeating create/encode/destroy cycles does not grow memory."

  Two models.
  (A) Ownership (`Model/Unwind.lean`, classes of `Gen/Lifecycle.lean`, regenerated every run): what
      `EB_DELETE(handle)` in `svt_av1_enc_deinit_handle` releases — at ANY point of construction, because a
      partially constructed object is exactly what the `Script` semantics produces by stopping early.
  (B) Shutdown protocol (`Model/Srm.lean`, the C23 model of EbSystemResourceManager.c): `svt_av1_enc_deinit`
      calls `svt_shutdown_process` on 16 system resources (`Lifecycle.shutdownList`); each of the 16 kernel thread
      functions (`Lifecycle.kernels`) waits on the consumer side of one of them with `EB_GET_FULL_OBJECT`.

  The liveness half of the property is FALSE for the code as it is and is stated as such
  (`shutdown_misses_producers`, `kernels_block_on_empty`): finding F6.
  Not covered: OS-level release of memory; the ownership tables are syntactic (member-name matching, no aliasing,
  destructor loop counts assumed equal to the constructor's); the decoder (memory-map scheme) is covered by
  `harness/teardown.c` only.
-/
import SvtVerif.Lemmas.Unwind
import SvtVerif.Lemmas.UnwindSrm
import SvtVerif.Gen.Lifecycle

namespace C15
open Unwind
set_option linter.unusedVariables false

/-! ### (A) ownership -/

/-- **created ⊆ released, whole table.**  In every generated class every member the constructor can create
    (EB_NEW / EB_MALLOC* / EB_CALLOC* / EB_ALLOC_PTR_ARRAY / EB_CREATE_MUTEX / _SEMAPHORE / _THREAD*) is released
    by the class's destructor (EB_DELETE* / EB_FREE* / EB_DESTROY_*).  Evaluated over the finite table. -/
theorem created_subset_released : ∀ cd ∈ Lifecycle.table, cd.covered = true := by decide +kernel

example : Lifecycle.table.length ≥ 40 := by decide +kernel

/-- the good classes of the generated table form a good set (the same obligation as C16 `generated_good`) -/
theorem generated_good : goodSet Lifecycle.table (goodClasses Lifecycle.table) = true := by decide +kernel

/-- **`dctor_releases_all`: teardown at any point of construction.**  For every class of the good set, every
    constructor run — complete, or stopped early at any point (a `Script` may end anywhere) — and every failure
    pattern: if construction returned the object, deleting it (`EB_DELETE`: destructor, then free) leaves the
    heap EMPTY and no destructor dereferences NULL; if construction returned an error the heap is already empty. -/
theorem dctor_releases_all (c : Nat) (hc : c ∈ goodClasses Lifecycle.table) (fail : Nat → Bool) (script : Script) :
    let r := construct Lifecycle.table fail c script
    (r.ok = true → (destroy Lifecycle.table r).heap = [] ∧ (destroy Lifecycle.table r).crashed = false) ∧
    (r.ok = false → r.st.heap = []) := by
  intro r
  have h := construct_spec Lifecycle.table fail _ (goodSet_iff _ _ generated_good) c hc script
  exact ⟨h.ok_teardown, fun e => (h.err_clean e).1⟩

/-- non-vacuity: a fully constructed muxing queue (class `svt_muxing_queue`, straight-line run: its mutex, two ring buffers, the fifo array and one fifo)
    holds allocations, and they are all gone after the delete -/
example :
    let c := (Lifecycle.table.findIdx (fun cd => cd.name == "svt_muxing_queue"))
    let r := construct Lifecycle.table noFail c (straight Lifecycle.table 3 c)
    c ∈ goodClasses Lifecycle.table ∧ r.ok = true ∧ r.st.heap.length ≥ 5 ∧ (destroy Lifecycle.table r).heap = [] := by
  decide +kernel

/-- **`no_double_release` (1): every allocation is freed at most once.**  The allocations owned by a completed
    object of a good class are pairwise distinct and are exactly the live heap; `EB_DELETE` removes exactly
    them (previous theorem) — so no allocation is passed to `free` twice and nothing that is not live is freed. -/
theorem no_double_release (c : Nat) (hc : c ∈ goodClasses Lifecycle.table) (fail : Nat → Bool) (script : Script) :
    let r := construct Lifecycle.table fail c script
    r.ok = true → r.root.ids.Nodup ∧ r.st.heap = r.root.ids := by
  intro r hok
  have h := construct_spec Lifecycle.table fail _ (goodSet_iff _ _ generated_good) c hc script
  exact ⟨(h.ok_owned hok).2, (h.ok_owned hok).1⟩

/-- **`no_double_release` (2): repeated releases are of the NULL-ing kind.**  A destructor may name a member
    twice (e.g. `enc_dec_segments_dctor` frees four arrays twice): that is harmless only because EB_FREE* /
    EB_DELETE / EB_DESTROY_* reset the member to NULL.  The members released with a primitive that does not
    (`free(obj->m)`, `Lifecycle.rawReleases`) are each released exactly once. -/
theorem raw_releases_once :
    ∀ p ∈ Lifecycle.rawReleases, ((Lifecycle.table.cls p.1).rels.countP (fun r => r.slot == some p.2)) = 1 := by
  decide +kernel

/-! ### (B) shutdown protocol -/

open Srm in
/-- **`shutdown_wakes_consumers`.**  For each of the 16 resources (any reachable state `s` of its SRM, i.e. after
    any interleaving of any threads) and each of its consumer fifos `f`: the two atomic steps of
    `svt_fifo_shutdown` (set `quit_signal`; post the semaphore) are enabled, lead to a reachable state, and a
    consumer that was blocked in `svt_get_full_object` on `f` then takes the semaphore and returns
    `EB_NoErrorFifoShutdown`. -/
theorem shutdown_wakes_consumers {s : State} (h : Reachable s) (f : Nat) (hf : f < s.nProc .full) :
    ∃ s1 s2, step s (.shutQuit f) = .ok s1 .ok ∧ step s1 (.shutPost f) = .ok s2 .ok ∧ Reachable s2 ∧
      (s.pc .full f = .waiting →
        ∃ s3 s4, step s2 (.semWait .full f) = .ok s3 .ok ∧ step s3 (.pop .full f) = .ok s4 .shutdown ∧
          s4.pc .full f = .idle) :=
  shutdown_wakes h f hf

/-- a reachable state with a consumer blocked in `svt_get_full_object` on fifo 0 of 2 -/
example : ∃ s, Srm.Reachable s ∧ s.pc .full 0 = .waiting ∧ 0 < s.nProc .full :=
  Srm.exists_reachable_of_run 2 1 2 [.reg .full 0] _ (by decide)

/-- **`kernel_exits_on_shutdown`.**  Every kernel thread function started by `svt_av1_enc_init` has a
    `for (;;)` loop whose first blocking call is `EB_GET_FULL_OBJECT` (EbSystemResourceManager.h:321: `return
    NULL` from the thread function on EB_NoErrorFifoShutdown), and the fifo it waits on is a consumer fifo of a
    resource that `svt_av1_enc_deinit` passes to `svt_shutdown_process`.  (Generated table, 16 kernels.) -/
theorem kernel_exits_on_shutdown :
    ∀ k ∈ Lifecycle.kernels, k.getFullFirst = true ∧ k.input ∈ Lifecycle.shutdownList := by decide +kernel

example : Lifecycle.kernels.length = 16 ∧ Lifecycle.shutdownList.length = 16 := by decide +kernel

/-- every resource that is shut down has a kernel waiting on it, and no two kernels share one: the 16
    shutdown calls and the 16 kernels correspond one to one -/
theorem shutdown_list_matches_kernels :
    (Lifecycle.kernels.map (·.input)).Nodup ∧ ∀ r ∈ Lifecycle.shutdownList, r ∈ Lifecycle.kernels.map (·.input) := by
  decide +kernel

/-- **Negative (F6), protocol level** — restated from C23: `svt_shutdown_process` touches consumer fifos only;
    a thread blocked in `svt_get_empty_object` (producer side, semaphore 0) is still blocked after any
    shutdown step of the same resource. -/
theorem shutdown_misses_producers {s s' : Srm.State} {f g : Nat} {r : Srm.Ret}
    (hs : Srm.step s (.shutQuit f) = .ok s' r ∨ Srm.step s (.shutPost f) = .ok s' r)
    (hp : s.pc .empty g = .waiting) (h0 : s.sem .empty g = 0) :
    Srm.step s' (.semWait .empty g) = .blocked := by
  rcases hs with hs | hs
  · have ht := Srm.step_Tr hs
    cases ht
    simp [Srm.step, hp, h0]
  · have ht := Srm.step_Tr hs
    cases ht
    have : Srm.upd2 s.sem .full f (s.sem .full f + 1) .empty g = 0 := by simp [Srm.upd2, h0]
    simp [Srm.step, hp, this]

/-- a reachable state with a producer blocked in `svt_get_empty_object`: one object, the producer holds it
    and asks for a second one -/
example : ∃ s, Srm.Reachable s ∧ s.pc .empty 0 = .waiting ∧ s.sem .empty 0 = 0 :=
  Srm.exists_reachable_of_run 1 1 1 [.reg .empty 0, .semWait .empty 0, .pop .empty 0, .reg .empty 0] _ (by decide)

/-- **Negative (F6), code level**: kernels whose loop also calls `svt_get_empty_object` — these can be left
    blocked by `svt_av1_enc_deinit` (mid-stream teardown hangs in `svt_av1_enc_deinit_handle`, which joins them);
    there is at least one (in fact all but `picture_decision_kernel`), `picture_manager_kernel` among them. -/
theorem kernels_block_on_empty :
    (Lifecycle.kernels.filter (fun k => k.getEmpty > 0)).length ≥ 1 ∧
    ∃ k ∈ Lifecycle.kernels, k.name = "picture_manager_kernel" ∧ k.getEmpty > 0 := by decide +kernel

end C15
