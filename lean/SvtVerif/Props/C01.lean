/-
  C01 — the encoder's reconstruction equals a decode of its own bitstream (frame-level protocol).

  Drift between the encoder's reconstruction and a decoder has two sources: (a) the frame-level protocol — which
  reference slots a picture reads and refreshes, which picture is output at which position — and (b) the per-block
  arithmetic.  (a) is the state machine of AV1 §7.20 / §7.21 (`Dpb.decStep`, decoder side) and the same bookkeeping on
  the encoder side (`Dpb.encStep`: `refresh_frame_mask`, `ref_dpb_index`, `show_existing_loc`); it is proved here for
  ALL frame lists.  (b) appears as the explicit hypothesis H-recon (`Renc = Rdec` on the payloads of the stream), and the
  header writer/parser pair as H-syntax; both are exercised on real encodes by `checks/c01.py`, not proved.
-/
import SvtVerif.Lemmas.DpbRefine

namespace C01
open Dpb

variable {P S B : Type}

/-- **Refinement.**  `fs` is what the encoder decided picture by picture, `write` its header/payload writer and `parse` the
    decoder's parser.  If
    * H-recon: encoder and decoder reconstruction functions agree on every payload of the stream, for any references,
    * H-syntax: parsing what was written gives back the encoder's own header fields (`EncPic.toFrame`),
    * H-key: a displayed key frame carries `refresh_frame_mask = 0xFF` on the encoder side (the header does not transmit
      the mask of a shown key frame; the decoder infers `allFrames`; `set_key_frame_rps`, EbPictureDecisionProcess.c l.1207),
    then, started from the same DPB, the decoder run on the written stream and the encoder-side machine end in the same DPB
    and emit the same picture at every position of the stream — for every list of pictures, of any length.
    Invariant of the induction: both DPBs are equal after every picture. -/
theorem recon_eq_decode (Renc Rdec : P → List S → S) (write : EncPic P → B) (parse : B → Frame P)
    (d : State S) (fs : List (EncPic P))
    (hrecon : ∀ p ∈ fs, ∀ refs, Renc p.payload refs = Rdec p.payload refs)
    (hsyntax : ∀ p ∈ fs, parse (write p) = p.toFrame)
    (hkey : ∀ p ∈ fs, p.showExistingLoc = none → p.frameType = .key → p.showFrame = true → p.refreshFrameMask % 256 = 0xFF) :
    runDec Rdec d (fs.map (fun p => parse (write p))) = runEnc Renc d fs := by
  induction fs generalizing d with
  | nil => rfl
  | cons p ps ih =>
    have hp : parse (write p) = p.toFrame := hsyntax p List.mem_cons_self
    have hstep : decStep Rdec d p.toFrame = encStep Renc d p := by
      rw [encStep_eq_decStep Renc d p (hkey p List.mem_cons_self)]
      unfold decStep
      have : ∀ refs, Rdec p.toFrame.payload refs = Renc p.toFrame.payload refs :=
        fun refs => (hrecon p List.mem_cons_self refs).symm
      rw [this]
    have ih' := ih (encStep Renc d p).1 (fun q hq => hrecon q (List.mem_cons_of_mem _ hq))
      (fun q hq => hsyntax q (List.mem_cons_of_mem _ hq)) (fun q hq => hkey q (List.mem_cons_of_mem _ hq))
    simp only [List.map_cons, runDec_cons, runEnc, hp, hstep, ih']

/-- The output sequences (what a player sees vs. what the encoder hands out as displayed reconstructions) are equal. -/
theorem recon_eq_decode_outputs (Renc Rdec : P → List S → S) (write : EncPic P → B) (parse : B → Frame P)
    (d : State S) (fs : List (EncPic P))
    (hrecon : ∀ p ∈ fs, ∀ refs, Renc p.payload refs = Rdec p.payload refs)
    (hsyntax : ∀ p ∈ fs, parse (write p) = p.toFrame)
    (hkey : ∀ p ∈ fs, p.showExistingLoc = none → p.frameType = .key → p.showFrame = true → p.refreshFrameMask % 256 = 0xFF) :
    outputs (runDec Rdec d (fs.map (fun p => parse (write p)))).2 = outputs (runEnc Renc d fs).2 := by
  rw [recon_eq_decode Renc Rdec write parse d fs hrecon hsyntax hkey]

/-- H-key is needed: a displayed key frame whose encoder-side mask is not `0xFF` makes the two machines diverge
    (the excluded point of `recon_eq_decode`; the decoder overwrites all eight slots, the encoder only slot 0). -/
example :
    let R : Nat → List Nat → Nat := fun p _ => p
    let d : State Nat := fun _ => { pic := 0, frameType := .inter, showable := false }
    let k : EncPic Nat := { frameType := .key, showFrame := true, showableFrame := false, showExistingLoc := none,
                            refreshFrameMask := 1, refDpbIndex := [], payload := 7 }
    ((runDec R d [k.toFrame]).1 3).pic = 7 ∧ ((runEnc R d [k]).1 3).pic = 0 := by decide

/-- Non-vacuity of `recon_eq_decode`: a key frame, a hidden ALT-REF stored in slot 3, an inter frame, then the ALT-REF
    shown through `show_existing_frame` — hypotheses hold and four headers give three outputs 10, 12, 11. -/
example :
    let R : Nat → List Nat → Nat := fun p refs => p + 0 * refs.length
    let d : State Nat := fun _ => { pic := 0, frameType := .inter, showable := false }
    let ix : List (Fin 8) := [0, 0, 0, 3, 3, 3, 3]
    let fs : List (EncPic Nat) :=
      [ { frameType := .key, showFrame := true, showableFrame := false, showExistingLoc := none, refreshFrameMask := 0xFF, refDpbIndex := [], payload := 10 },
        { frameType := .inter, showFrame := false, showableFrame := true, showExistingLoc := none, refreshFrameMask := 8, refDpbIndex := ix, payload := 11 },
        { frameType := .inter, showFrame := true, showableFrame := false, showExistingLoc := none, refreshFrameMask := 2, refDpbIndex := ix, payload := 12 },
        { frameType := .inter, showFrame := true, showableFrame := false, showExistingLoc := some 3, refreshFrameMask := 0, refDpbIndex := [], payload := 13 } ]
    outputs (runEnc R d fs).2 = [10, 12, 11] ∧ outputs (runDec R d (fs.map EncPic.toFrame)).2 = [10, 12, 11] := by decide

/-- **Output order.**  For every header of the stream, in bitstream order: a `show_existing_frame` header outputs the picture
    held by the designated slot at that moment; a coded header outputs its own reconstruction (from the references the DPB
    holds at that moment) iff `show_frame = 1`; nothing else is ever output.  `i` ranges over all positions of any stream. -/
theorem dec_output_order (R : P → List S → S) (d : State S) (fs : List (Frame P)) (i : Nat) (f : Frame P)
    (h : fs[i]? = some f) :
    (runDec R d fs).2[i]? = some
      (match f.showExisting with
       | some k => some ((runDec R d (fs.take i)).1 k).pic
       | none => if f.showFrame then some (R f.payload (refsOf (runDec R d (fs.take i)).1 f)) else none) := by
  rw [runDec_getElem? R d fs i f h]
  unfold decStep
  cases f.showExisting with
  | some k => simp only; split <;> rfl
  | none => rfl

/-- The number of pictures output is the number of headers with `show_frame = 1` or `show_existing_frame = 1`, and the
    positions of the outputs in the stream are exactly those headers. -/
theorem dec_output_positions (R : P → List S → S) (d : State S) (fs : List (Frame P)) :
    (runDec R d fs).2.map Option.isSome = fs.map producesOutput ∧
    (outputs (runDec R d fs).2).length = (fs.filter producesOutput).length :=
  ⟨runDec_isSome R d fs, outputs_length R d fs⟩

/-- **Display-position matching.**  Every picture the decoder outputs is one of the pictures reconstructed while decoding the
    stream (or was in the DPB before the stream started): with `S` instantiated to (display position, samples) pairs this is
    what licenses matching the decoder's outputs against the encoder's `svt_av1_get_recon` buffers by display position. -/
theorem output_is_a_reconstruction (R : P → List S → S) (d : State S) (fs : List (Frame P)) (x : S)
    (hx : x ∈ outputs (runDec R d fs).2) : (∃ i, x = (d i).pic) ∨ x ∈ recons R d fs :=
  output_mem R d fs x hx

example :
    let R : Nat → List Nat → Nat := fun p _ => p
    let d : State Nat := fun _ => { pic := 0, frameType := .inter, showable := false }
    let fs : List (Frame Nat) :=
      [ { frameType := .key, showFrame := true, showableFrame := false, showExisting := none, refreshFlags := 0, refIdx := [], payload := 10 },
        { frameType := .inter, showFrame := false, showableFrame := true, showExisting := none, refreshFlags := 8, refIdx := [0,0,0,0,0,0,0], payload := 11 },
        { frameType := .inter, showFrame := true, showableFrame := false, showExisting := some 3, refreshFlags := 0, refIdx := [], payload := 12 } ]
    outputs (runDec R d fs).2 = [10, 11] ∧ recons R d fs = [10, 11] := by decide

/-- **Reference update (§7.20).**  After a coded header, slot `j` holds the new picture iff bit `j` of the effective
    `refresh_frame_flags` (`0xFF` inferred for a shown key frame) is set; every other slot is unchanged. -/
theorem dpb_refresh_spec (R : P → List S → S) (d : State S) (f : Frame P) (h : f.showExisting = none) (j : Fin 8) :
    (decStep R d f).1 j =
      if (effRefresh f).testBit j.val
      then { pic := R f.payload (refsOf d f), frameType := f.frameType, showable := f.showableFrame }
      else d j :=
  (decStep_coded R d f h).1 j

example :
    let R : Nat → List Nat → Nat := fun p _ => p
    let d : State Nat := fun _ => { pic := 0, frameType := .inter, showable := false }
    let f : Frame Nat := { frameType := .inter, showFrame := true, showableFrame := false, showExisting := none, refreshFlags := 0x24, refIdx := [], payload := 9 }
    (List.finRange 8).map (fun j => ((decStep R d f).1 j).pic) = [0, 0, 9, 0, 0, 9, 0, 0] := by decide

/-- **Shown key frame through `show_existing_frame` (§7.21).**  All eight slots are reloaded with the shown key frame and it
    is output; `show_existing_frame` of any other frame type leaves the DPB untouched. -/
theorem show_existing_key_refreshes_all (R : P → List S → S) (d : State S) (f : Frame P) (i : Fin 8)
    (h : f.showExisting = some i) :
    ((d i).frameType = .key → decStep R d f = (fun _ => d i, some (d i).pic)) ∧
    ((d i).frameType ≠ .key → decStep R d f = (d, some (d i).pic)) :=
  ⟨decStep_showExisting_key R d f i h, decStep_showExisting_nonkey R d f i h⟩

example :
    let R : Nat → List Nat → Nat := fun p _ => p
    let d : State Nat := fun j => { pic := j.val, frameType := if j.val = 5 then .key else .inter, showable := true }
    let f : Frame Nat := { frameType := .inter, showFrame := true, showableFrame := false, showExisting := some 5, refreshFlags := 0, refIdx := [], payload := 9 }
    (List.finRange 8).map (fun j => ((decStep R d f).1 j).pic) = [5, 5, 5, 5, 5, 5, 5, 5] ∧ (decStep R d f).2 = some 5 := by decide

end C01
