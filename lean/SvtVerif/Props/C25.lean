/-
  C25 — the entropy coder round-trips every symbol sequence.
  Property theorems only; the model is SvtVerif/Model/RangeCoder.lean (writer = EbBitstreamUnit.c, reader =
  EbDecBitstreamUnit.h / EbDecBitReader.h, adaptation = update_cdf / dec_update_cdf), helper lemmas are in
  SvtVerif/Lemmas/RangeCoder.lean.
-/
import SvtVerif.Lemmas.RangeCoder

namespace C25
open RangeCoder

/-! ### 1. probability-table adaptation -/

/-- `update_cdf` (writer, EbCabacContextModel.h:523, `AomCdfProb tmp`) and `dec_update_cdf` (reader,
    EbDecBitstreamUnit.h:73, `int tmp` and an extra `(AomCdfProb)` cast) compute the same table — for EVERY table of
    `uint16` entries, every symbol and every alphabet size, not only for valid ones. -/
theorem update_cdf_eq (c : List Nat) (s n : Nat) (h : IsU16List c) : updateCdf c s n = decUpdateCdf c s n :=
  updateCdf_eq_dec c s n h

/-- On valid tables in particular (the form stated in DESIGN.md). -/
theorem update_cdf_eq_valid (c : List Nat) (s n : Nat) (h : ValidCdf c n) : updateCdf c s n = decUpdateCdf c s n :=
  updateCdf_eq_dec c s n h.isU16

/-- Adaptation preserves validity: `n+1` entries, first ≤ 32767, non-increasing, entry `n-1` is 0, counter ≤ 32.
    So tables stay legal inputs of the coder for the whole stream. -/
theorem update_cdf_valid (c : List Nat) (s n : Nat) (h : ValidCdf c n) : ValidCdf (updateCdf c s n) n :=
  updateCdf_valid c s n h

example : ValidCdf [16384, 0, 0] 2 := by
  refine ⟨rfl, by omega, by omega, ?_, ?_, rfl, by decide⟩
  · intro i hi; interval_cases i <;> decide
  · intro i hi; have : i < 1 := by omega
    interval_cases i; decide
example : updateCdf [16384, 0, 31] 1 2 = [16896, 0, 32] := by decide
example : IsU16List [16384, 0, 31] := by intro x hx; simp at hx; omega

/-! ### 2. the partition lemma (this is where `EC_MIN_PROB = 4` and `n ≤ 16` matter) -/

/-- For every range `32768 ≤ r < 65536` and every valid `n`-symbol table (`n ≤ 16`), the scaled cumulative values
    computed by `od_ec_encode_q15` / `od_ec_decode_cdf_q15` satisfy `r = u₀ > v₀ = u₁ > v₁ = … > v_{n-1} = 0`:
    every symbol — even one of probability zero — gets a non-empty sub-interval `[v_s, u_s)`, the sub-intervals are
    adjacent, and together they tile `[0, r)`. -/
theorem partition (r : Nat) (c : List Nat) (n : Nat) (hr0 : 32768 ≤ r) (hr : r < 65536) (h : ValidCdf c n) :
    symU r c (n - 1) 0 = r ∧ symV r c (n - 1) (n - 1) = 0 ∧
    ∀ s, s < n → symV r c (n - 1) s < symU r c (n - 1) s ∧ symU r c (n - 1) (s + 1) = symV r c (n - 1) s ∧
      symU r c (n - 1) s ≤ r :=
  RangeCoder.partition r c n hr0 hr h

/-- the margin is tight: with 16 symbols all of probability ~0 below the first, `r − v₀` is exactly 4 at `r = 32768` -/
example : symV 32768 ([32767] ++ List.replicate 15 0 ++ [0]) 15 0 = 32764 := by decide

/-- The reader's search loop `do { … } while (c < v)` (EbDecBitstreamUnit.h:211-216) returns exactly the symbol whose
    sub-interval contains the 16-bit window value, together with that sub-interval. -/
theorem search_finds_symbol (r : Nat) (c : List Nat) (n s cc : Nat) (hr0 : 32768 ≤ r) (hr : r < 65536)
    (h : ValidCdf c n) (hs : s < n) (hv : symV r c (n - 1) s ≤ cc) (hu : cc < symU r c (n - 1) s) :
    decSearch r cc (n - 1) 0 r (c.take n) = (s, symU r c (n - 1) s, symV r c (n - 1) s) :=
  decSearch_finds r c n s cc hr0 hr h hs hv hu

example : decSearch 40000 20000 1 0 40000 ([16384, 0, 0].take 2) = (0, 40000, 19972) := by decide

/-! ### 3. abstract layer: exact arithmetic, no window, no bytes -/

/-- **dec_step_inverts_enc_step**: one primitive (a symbol of a valid table, or a bool with `0 < f < 32768`).
    If the final code value `X` lies in the writer's interval after the step, the abstract reader, which sees only the
    probability model, returns the value that was written, and its state `(D, r, e)` keeps mirroring the writer's
    `(L, r, k)`: `D = (L + r)·2^e − X − 1`. -/
theorem dec_step_inverts_enc_step (X T : Nat) (a : AEnc) (b : ADec) (p : Prim) (ha : AInv a) (hp : p.Valid)
    (hc : Cont X T (aEncPrim a p)) (hr : Rel X T a b) :
    (aDecPrim b p).2 = p.value ∧ Rel X T (aEncPrim a p) (aDecPrim b p).1 :=
  aDecPrim_correct X T a b p ha hp hc hr

/-- **ec_roundtrip_abstract**: for EVERY sequence of valid primitives, every `T`-bit code value `X` inside the final
    interval of the abstract writer is decoded by the abstract reader to exactly the written sequence. -/
theorem ec_roundtrip_abstract (ps : List Prim) (X T : Nat) (hv : ∀ p ∈ ps, p.Valid)
    (hc : Cont X T (aEncPrims aEncInit ps)) :
    aDecPrims { D := 2 ^ T - 1 - X, r := 32768, e := T - 15 } ps = ps.map Prim.value := by
  have ha : AInv aEncInit := ⟨by decide, by decide⟩
  have h0 := cont_prims X T ps aEncInit ha hv hc
  obtain ⟨e, he, h1, h2⟩ := h0
  simp only [aEncInit] at he h1 h2
  have hT : T = e + 15 := by omega
  have hp : 2 ^ T = 32768 * 2 ^ e := by rw [hT, Nat.pow_add]; ring
  apply aDecPrims_correct X T ps aEncInit _ ha hv hc
  refine ⟨rfl, by simp only [aEncInit]; omega, ?_⟩
  simp only [aEncInit]
  have : T - 15 = e := by omega
  rw [this, hp]; omega

/-- non-vacuity: the final interval is never empty — e.g. its low end, at any precision `T ≥ k + 15`, is inside. -/
theorem final_interval_nonempty (a : AEnc) (T : Nat) (hr : 0 < a.r) (hT : a.k + 15 ≤ T) :
    Cont (a.L * 2 ^ (T - 15 - a.k)) T a := by
  refine ⟨T - 15 - a.k, by omega, Nat.le_refl _, ?_⟩
  exact Nat.mul_lt_mul_of_pos_right (by omega) (by positivity)

example : aDecPrims { D := 2 ^ 40 - 1 - 0, r := 32768, e := 25 }
    [.bool 16384 0, .sym [16384, 0, 0] 2 0] = [0, 0] := by decide

/-! ### 4. the real writer refines the abstract encoder -/

/-- **writer_refines_abstract** (`cnt_range` included): for every reachable writer state and every well-formed call of
    `aom_write_symbol` / `aom_write` / `aom_write_literal`, the state after the call satisfies the invariant
    (`−9 ≤ cnt ≤ −1`, `32768 ≤ rng < 65536`, `low + rng ≤ 2^(cnt+25)` — so the 32-bit window never overflows and every
    precarry cell is < 2^9) and the exact interval `precarry·2^(cnt+24) + low` is what the abstract encoder computes:
    carries are deferred into the 16-bit precarry cells, never lost. -/
theorem writer_refines_abstract (w : Writer) (op : Op) (hi : EncInv w.enc) (hv : OpValid w.tabs op) :
    EncInv (writeOp w op).enc ∧ absEnc (writeOp w op).enc = aEncPrims (absEnc w.enc) (opPrims w.tabs op) :=
  writeOp_spec w op hi hv

example : EncInv encInit := encInit_inv
example : OpValid [[16384, 0, 0]] (.sym 0 1) := by
  refine ⟨by decide, ?_, by decide⟩
  refine ⟨rfl, by decide, by decide, ?_, ?_, rfl, by decide⟩
  · intro i hi; have : i < 2 := hi; interval_cases i <;> decide
  · intro i hi; have : i < 1 := by have : i + 1 < 2 := hi; omega
    interval_cases i; decide

/-! ### 4b. the real reader refines the abstract decoder -/

/-- **reader_refines_abstract**: one `od_ec_decode_cdf_q15` / `od_ec_decode_bool_q15` call. If the reader state mirrors
    the abstract decoder state (`DecRel`: the 32-bit window `dif` holds the top bits of `D`, its not-yet-filled low bits
    are ones, the unread bytes — zero-extended past the end of the buffer — account for the rest) and the 16-bit window
    value lies in the primitive's sub-interval, then the real reader returns that primitive's value and its new state
    (after `od_ec_dec_normalize` and any `od_ec_dec_refill`, including refills that hit the end of the buffer) mirrors
    the abstract decoder's new state. `Z` is the amount of zero padding the abstract stream carries. -/
theorem reader_refines_abstract (Z : Nat) (dc : Dec) (b : ADec) (p : Prim) (hR : DecRel Z dc b) (hp : p.Valid)
    (hv : primV b.r p ≤ b.D / 2 ^ b.e) (hu : b.D / 2 ^ b.e < primU b.r p)
    (he : 16 + normShift (primU b.r p - primV b.r p) ≤ b.e) :
    (decodePrim dc p).2 = p.value ∧ DecRel Z (decodePrim dc p).1 (aDecStep b (primU b.r p) (primV b.r p)) :=
  readPrim_spec Z dc b p hR hp hv hu he

/-- `od_ec_dec_init` on ANY byte string (also the empty one) establishes the relation. -/
theorem reader_init_refines (Z : Nat) (bytes : List Nat) (hb : ∀ x ∈ bytes, x < 256) (hZ : 31 ≤ 8 * bytes.length + Z) :
    DecRel Z (decInit bytes)
      { D := 2 ^ (8 * bytes.length + Z) - 1 - valBE bytes * 2 ^ Z, r := 32768, e := 8 * bytes.length + Z - 15 } :=
  decInit_spec Z bytes hb hZ

example : DecRel 40 (decInit []) { D := 2 ^ 40 - 1 - 0, r := 32768, e := 25 } := by
  have := decInit_spec 40 [] (by simp) (by simp)
  simpa [valBE] using this

/-! ### 4c. round trip on bytes -/

theorem readOpsAux_shape : ∀ (ops : List Op) (r : Reader) (acc : List Nat),
    readOpsAux r acc (ops.map Op.shape) = readOpsAux r acc ops := by
  intro ops
  induction ops with
  | nil => intro r acc; rfl
  | cons op ops ih =>
    intro r acc
    simp only [List.map_cons, readOpsAux, readOp_shape, ih]

/-
  FULL STATEMENT (the property itself), not yet closed:

    theorem ec_roundtrip (tabs : Tables) (adapt : Bool) (ops : List Op) (hv : OpsValid tabs ops) :
        let w := writeOps { enc := encInit, tabs := tabs, adapt := adapt } ops
        let rd := readOps { dec := decInit (encDone w.enc), tabs := tabs, adapt := adapt } (ops.map Op.shape)
        rd.2 = ops.map Op.value ∧ rd.1.tabs = w.tabs

  It follows from `ec_roundtrip_partial` below applied to `bytes := encDone w.enc` once the one missing lemma is proved:

    done_in_interval : EncInv e → (absEnc e).L + e.rng ≤ 2 ^ (15 + (absEnc e).k) →
        (∀ x ∈ encDone e, x < 256) ∧ Cont (valBE (encDone e) * 2 ^ Z) (8 * (encDone e).length + Z) (absEnc e)

  i.e. `svt_od_ec_enc_done`'s rounding `e = ((l + 0x3FFF) & ~0x3FFF) | 0x4000` lands in `[l, l + 2^15) ⊆ [l, l + rng)`, the
  dropped low bits of `e` are zero, and the carry-propagation loop turns the precarry cells into the base-256 digits
  of `precarry·2^(cnt+24) + e` without a carry out of the first byte.  Its length part is proved (`tell_bounds_bytes`);
  the value part is covered only by the byte-exact correspondence run of checks/c25.py.
-/

/-- **ec_roundtrip_partial**: for EVERY well-formed operation sequence (symbols of any alphabet size 2..16 over valid
    tables, bools, literals, adaptation switched on/off anywhere), and for EVERY byte string whose value lies in the
    real writer's final interval, the real reader — `od_ec_dec_init`, `od_ec_decode_cdf_q15`, `od_ec_decode_bool_q15`,
    `aom_read_literal_`, `od_ec_dec_refill` with zero-extension past the end, `dec_update_cdf` — returns exactly the
    written values and ends with exactly the writer's probability tables.
    What is missing for the full property is only that `svt_od_ec_enc_done`'s bytes are such a string (see above). -/
theorem ec_roundtrip_partial (tabs : Tables) (adapt : Bool) (ops : List Op) (bytes : List Nat) (Z : Nat)
    (hv : OpsValid tabs ops) (hb : ∀ x ∈ bytes, x < 256)
    (hc : Cont (valBE bytes * 2 ^ Z) (8 * bytes.length + Z)
      (absEnc (writeOps { enc := encInit, tabs := tabs, adapt := adapt } ops).enc))
    (hZ : (absEnc (writeOps { enc := encInit, tabs := tabs, adapt := adapt } ops).enc).k + 31 ≤ 8 * bytes.length + Z) :
    (readOps { dec := decInit bytes, tabs := tabs, adapt := adapt } (ops.map Op.shape)).2 = ops.map Op.value ∧
    (readOps { dec := decInit bytes, tabs := tabs, adapt := adapt } (ops.map Op.shape)).1.tabs =
      (writeOps { enc := encInit, tabs := tabs, adapt := adapt } ops).tabs := by
  have hT : 31 ≤ 8 * bytes.length + Z := by omega
  have hD := decInit_spec Z bytes hb hT
  have hc0 := cont_ops _ _ ops { enc := encInit, tabs := tabs, adapt := adapt } encInit_inv hv hc
  obtain ⟨e, he, h1, h2⟩ := hc0
  have hk0 : (absEnc encInit).k = 0 := by decide
  have hL0 : (absEnc encInit).L = 0 := by decide
  have hr0 : (absEnc encInit).r = 32768 := by decide
  simp only [hk0, hL0, hr0] at he h1 h2
  have hp : 2 ^ (8 * bytes.length + Z) = 32768 * 2 ^ e := by
    rw [show 8 * bytes.length + Z = 15 + e by omega, Nat.pow_add]
  have hR : Rel (valBE bytes * 2 ^ Z) (8 * bytes.length + Z) (absEnc encInit)
      { D := 2 ^ (8 * bytes.length + Z) - 1 - valBE bytes * 2 ^ Z, r := 32768, e := 8 * bytes.length + Z - 15 } := by
    refine ⟨by simp [hr0], by simp only [hk0]; omega, ?_⟩
    simp only [hL0, hr0]
    rw [show 8 * bytes.length + Z - 15 = e by omega, hp]; omega
  have S := readOps_sync (valBE bytes * 2 ^ Z) (8 * bytes.length + Z) Z ops
    { enc := encInit, tabs := tabs, adapt := adapt } { dec := decInit bytes, tabs := tabs, adapt := adapt } _ []
    encInit_inv hv rfl rfl hc hZ hR hD
  unfold readOps
  rw [readOpsAux_shape]
  simpa using S

/-- non-vacuity of `ec_roundtrip_partial`: the bytes the model's `enc_done` emits for a concrete sequence satisfy the
    hypotheses (checked by evaluation), and the conclusion is the round trip of that sequence. -/
example : (readOps { dec := decInit (encDone (writeOps { enc := encInit, tabs := [[16384, 0, 0]], adapt := true }
      [.sym 0 1, .bool 16384 1, .lit 3 5]).enc), tabs := [[16384, 0, 0]], adapt := true }
      ([Op.sym 0 1, .bool 16384 1, .lit 3 5].map Op.shape)).2 = [1, 1, 5] := by decide

/-! ### 5. bit-count estimate -/

/-- **tell_bounds_bytes**: after ANY well-formed operation sequence, `⌈svt_od_ec_enc_tell / 8⌉` is exactly the
    number of bytes `svt_od_ec_enc_done` emits; in particular the estimate never under-reports the bytes emitted
    (`8·bytes < tell + 8`). (`enc_done` does not write `offs`/`cnt` back, so `tell` is the same before and after.) -/
theorem tell_bounds_bytes (tabs : Tables) (adapt : Bool) (ops : List Op) (hv : OpsValid tabs ops) :
    let w := writeOps { enc := encInit, tabs := tabs, adapt := adapt } ops
    (encTell w.enc + 7) / 8 = ((encDone w.enc).length : Int) ∧ 8 * ((encDone w.enc).length : Int) < encTell w.enc + 8 := by
  intro w
  have hi : EncInv w.enc := writeOps_inv ops _ encInit_inv hv
  have h := tell_eq_bytes w.enc hi
  exact ⟨h, by omega⟩

example : OpsValid [] [.bool 16384 1, .lit 3 5, .adapt true] := by
  intro op hop
  simp at hop
  rcases hop with rfl | rfl | rfl
  · exact ⟨by decide, by decide, by decide⟩
  · show 5 < 2 ^ 3; decide
  · trivial

end C25
