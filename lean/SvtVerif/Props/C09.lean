/-
  C09 — multi-threaded decoding is safe and equals single-thread decoding.  Property theorems only
  (helper lemmas: SvtVerif/Lemmas/DecWavefront*.lean).

  Model (SvtVerif/Model/DecWavefront.lean; tied to the real `decode_tile` / `decode_tile_row` /
  `decode_frame_tiles` text by harness/decwf.c on every run):
    `DecWf.step s g st op`  one atomic step of some worker in one row wavefront `s` (the reconstruction of a tile, or
                            the LF / CDEF / LR stage of a frame); `g r` = the row gate of row `r` is open.
                            `Reach s st` = any interleaving of the `s.n` workers, any gate behaviour.
    `DecWf.fstep F fs op`   the frame: all tiles, then LF → CDEF → LR, the gates computed from the row maps as in C.
  `ph r` : unpicked → gate (handed out, spinning on the row gate) → at j / busy j (column j: before / after its
  top-right spin) → tail → fin (row map stored).  `cnt` = columns finished (counter stored), `beg` = columns begun.
  `log` = ghost list of the (row, column) whose processing began, newest first.

  Hypothesis `PassSound s` (the spin test really waits for the upper-right neighbour) is PROVED for all four encodings at
  every width (`pass_sound`), so the theorems below that carry it hold unconditionally for the real stages.

  History: before commit c7d082d of /repo the CDEF test was `*prev < (sb_fbc + nsync)` on an unsigned counter that was memset
  to 0 and stored the column index; for a picture one SB wide (`nsync = 0` at the only column) it never waited, `PassSound`
  was false at `W = 1`, and 64-pixel-wide streams decoded differently with threads > 1 (finding C09-cdef-w1-no-row-sync,
  fixed).  checks/c09.py keeps one-SB-wide multi-row streams as regression cases.
-/
import SvtVerif.Lemmas.DecWavefrontDag
import SvtVerif.Lemmas.DecWavefrontFrame

namespace C09
open DecWf

/-! ## 1. the spin tests, as written in C -/

/-- The top-right spin of every stage is sound at every width: leaving it for column `j` means the previous row has
    finished `min (j+2) W` columns.
    (recon: `*prev < MIN(sb_col + 2, tile_wd_in_sb)`, counter = absolute column + 1, init 0;
     LF: `*prev < MIN(x + 2, W - 1)`, counter = column, init -1; LR: `*prev < col + nsync`, counter = column, init -1;
     CDEF: `*prev < (sb_fbc + 1) + nsync`, unsigned counter = number of finished columns, init 0.) -/
theorem pass_sound (s : Stage) : PassSound s := by
  cases hk : s.kind with
  | recon => exact passSound_recon s hk
  | lf => exact passSound_lf s hk
  | lr => exact passSound_lr s hk
  | cdef => exact passSound_cdef s hk

/-- … and live at every width: a finished previous row never blocks a column. -/
theorem pass_live (s : Stage) : PassLive s := passLive_all s

/-! ## 2. one wavefront: safety, exactly-once, deadlock freedom, termination -/

/-- **decwf_safe (cone form)**: in every reachable state, under every interleaving of any number of workers, when
    the processing of column `j` of row `r` starts (step `dec r`), every superblock in its wavefront cone —
    the columns to its left in row `r`, and in row `r-k` the columns `< min (j+1+k) W` — has FINISHED (its progress
    counter is stored). -/
theorem decwf_safe_cone {s : Stage} {st st' : WSt} {g : Nat → Bool} {r : Nat}
    (hr : Reach s st) (h : step s g st (Op.dec r) = some st') :
    ∃ j, lget st.ph r = Ph.at j ∧ j < s.W ∧ (r, j) ∉ st.log ∧ st'.log = (r, j) :: st.log ∧
      ∀ r' j', cone s.W r j r' j' → r' < s.H ∧ j' < cnt s (lget st.ph r') := by
  have hi := reach_inv hr
  have hi' := inv_step hi h
  have hw' := wave_step (pass_sound s) hi (reach_wave (pass_sound s) hr) h
  simp only [step] at h
  split at h
  · rename_i j hg
    split at h
    · injection h with h; subst h
      have hrH : r < s.H := ph_lt hi (by rw [hg]; simp)
      have hlen : r < st.ph.length := by rw [hi.len_ph]; exact hrH
      have hjW := (hi.col_lt r j hrH (Or.inl hg)).1
      have hnew : lget (lset st.ph r (Ph.busy j)) r = Ph.busy j := lget_lset_self _ _ _ hlen
      refine ⟨j, hg, hjW, ?_, rfl, ?_⟩
      · intro hm; have := (hi.log_iff r j).1 hm; rw [hg] at this; simp [beg] at this
      · intro r' j' hc
        rcases hc with ⟨e1, hlt⟩ | ⟨h0, hlt⟩
        · subst e1; exact ⟨hrH, by rw [hg]; simpa [cnt] using hlt⟩
        · have hb : 1 ≤ beg s (lget (lset st.ph r (Ph.busy j)) r) := by rw [hnew]; simp [beg]
          have := wave_chain hi' hw' hrH hb (by omega) (r - r') (by omega) (by omega)
          simp only at this
          rw [hnew, show r - (r - r') = r' by omega, lget_lset_ne _ _ _ _ (by omega)] at this
          simp only [beg] at this
          exact ⟨by omega, by omega⟩
    · simp at h
  · simp at h

/-- **decwf_safe**: when SB `(r, j)` starts, its left, upper-left, upper and upper-right neighbours — where they
    exist in the tile / picture — have finished. -/
theorem decwf_safe {s : Stage} {st st' : WSt} {g : Nat → Bool} {r : Nat}
    (hr : Reach s st) (h : step s g st (Op.dec r) = some st') :
    ∃ j, lget st.ph r = Ph.at j ∧
      (1 ≤ j → j - 1 < cnt s (lget st.ph r)) ∧
      (1 ≤ r → 1 ≤ j → j - 1 < cnt s (lget st.ph (r - 1))) ∧
      (1 ≤ r → j < cnt s (lget st.ph (r - 1))) ∧
      (1 ≤ r → j + 1 < s.W → j + 1 < cnt s (lget st.ph (r - 1))) := by
  obtain ⟨j, hg, hjW, _, _, hc⟩ := decwf_safe_cone hr h
  refine ⟨j, hg, ?_, ?_, ?_, ?_⟩
  · intro h1; exact (hc r (j - 1) (Or.inl ⟨rfl, by omega⟩)).2
  · intro h1 h2; exact (hc (r - 1) (j - 1) (Or.inr ⟨by omega, by omega⟩)).2
  · intro h1; exact (hc (r - 1) j (Or.inr ⟨by omega, by omega⟩)).2
  · intro h1 h2; exact (hc (r - 1) (j + 1) (Or.inr ⟨by omega, by omega⟩)).2

/-- **decwf_once**: no superblock is processed twice (the begin events are pairwise distinct), and the log is
    exactly the set of begun columns: `(r, j)` is logged iff `j < beg (ph r)`. -/
theorem decwf_once {s : Stage} {st : WSt} (hr : Reach s st) :
    st.log.Nodup ∧ ∀ r j, (r, j) ∈ st.log ↔ (r < s.H ∧ j < beg s (lget st.ph r)) :=
  ⟨logok_nodup (reach_logok (pass_sound s) hr), (reach_inv hr).log_iff⟩

/-- the begin order respects the wavefront: whatever was begun earlier than `(r, j)` includes its whole cone -/
theorem decwf_order {s : Stage} {st : WSt} (hr : Reach s st) {post pre : List (Nat × Nat)}
    {r j : Nat} (hl : st.log = post ++ (r, j) :: pre) :
    (r, j) ∉ pre ∧ ∀ r' j', cone s.W r j r' j' → (r', j') ∈ pre := by
  have := reach_logok (pass_sound s) hr
  rw [hl] at this
  exact logok_split this

/-- **decwf_deadlock_free**: in every reachable state in which some row has not published its row map, a step is
    enabled — unless the least unfinished row is held at a closed row gate (then the stage is waiting for the
    previous stage / the parser, not for itself).  Rows are handed out in order, so the least unfinished row never
    waits for a row of its own stage.  Needs at least one worker; needs no hypothesis on the spin test. -/
theorem decwf_deadlock_free {s : Stage} (g : Nat → Bool) (hn : 1 ≤ s.n) {st : WSt} (hr : Reach s st)
    (hfin : ¬ AllFin s st) :
    (∃ op st', step s g st op = some st') ∨
    (∃ r, r < s.H ∧ lget st.ph r = Ph.gate ∧ g r = false ∧ ∀ r', r' < r → lget st.ph r' = Ph.fin) :=
  progress g (reach_inv hr) hn hfin

/-- with all gates open a reachable state with unfinished work always has an enabled step -/
theorem decwf_deadlock_free_open {s : Stage} (hn : 1 ≤ s.n) {st : WSt} (hr : Reach s st)
    (hfin : ¬ AllFin s st) : ∃ op st', step s (fun _ => true) st op = some st' := by
  rcases progress (fun _ => true) (reach_inv hr) hn hfin with h | ⟨r, _, _, hg, _⟩
  · exact h
  · simp at hg

/-- **measure**: `mu` strictly decreases along every step, so every execution from the initial state has at most
    `H·(2W+6) + 2n` steps; hence every maximal execution ends in a state without enabled steps, … -/
theorem decwf_terminates {s : Stage} {st : WSt} {k : Nat} (h : Steps s (initW s) k st) :
    k ≤ s.H * (2 * s.W + 6) + 2 * s.n := by
  have := steps_bounded (inv_init s) h
  have := mu_init s
  omega

theorem decwf_measure {s : Stage} {st st' : WSt} {g : Nat → Bool} {op : Op} (hr : Reach s st)
    (h : step s g st op = some st') : mu s st' < mu s st :=
  mu_step (reach_inv hr) h

/-- … and (**decwf_complete**) in such a state, gates open, every row is finished and every superblock of the
    `Wb × H` grid (`Wb = W`, or 0 when the stage is disabled for the frame) has been processed — exactly once by
    `decwf_once`. -/
theorem decwf_complete {s : Stage} (hn : 1 ≤ s.n) {st : WSt} (hr : Reach s st)
    (hterm : ∀ op, step s (fun _ => true) st op = none) :
    AllFin s st ∧ ∀ r j, r < s.H → j < Wb s → (r, j) ∈ st.log := by
  have hall : AllFin s st := by
    apply Classical.byContradiction
    intro hfin
    obtain ⟨op, st', h⟩ := decwf_deadlock_free_open hn hr hfin
    rw [hterm op] at h; simp at h
  refine ⟨hall, ?_⟩
  intro r j h1 h2
  apply ((reach_inv hr).log_iff r j).2
  rw [hall r h1]
  exact ⟨h1, by simpa [beg] using h2⟩

/-! ## 3. the stage pipeline: what an entered row may assume about the previous stage -/

/-- a finished row of a sound, enabled stage has every earlier row complete (all `W` counters stored): the row maps
    are stored in any order, but the wavefront inside the stage orders the work -/
theorem rows_below_complete {s : Stage} (hen : s.en = true) (hW : 1 ≤ s.W) {st : WSt}
    (hr : Reach s st) {r : Nat} (hf : lget st.ph r = Ph.fin) : ∀ r', r' ≤ r → cnt s (lget st.ph r') = s.W := by
  intro r' hle
  have hi := reach_inv hr
  have hrH : r < s.H := ph_lt hi (by rw [hf]; simp)
  have hWb : Wb s = s.W := Wb_eq hen (by omega)
  rcases Nat.eq_or_lt_of_le hle with e | hlt
  · subst e; rw [hf]; simp [cnt, hWb]
  · have hb : 1 ≤ beg s (lget st.ph r) := by rw [hf]; simp [beg, hWb]; omega
    have := wave_chain hi (reach_wave (pass_sound s) hr) hrH hb hW (r - r') (by omega) (by omega)
    rw [hf, show r - (r - r') = r' by omega] at this
    simp only [beg, hWb] at this
    have := cnt_le_W hi (show r' < s.H by omega)
    omega

/-- **stage_order (LF after reconstruction)**: when the body of LF row `r` has been entered, every tile column's
    reconstruction of rows `r-1`, `r`, `r+1` (clipped to the picture) has published its row map — the SB row of the
    tile holding it is finished, and with it (`rows_below_complete`) every SB of that row and of the rows above
    it in the tile. -/
theorem stage_order_lf {F : Frame} {fs : FSt} (h : FReach F fs) {r : Nat} (he : entered (lget fs.lf.ph r))
    {R i : Nat} (hR : R = r ∨ R + 1 = r ∨ (R = r + 1 ∧ R < F.H)) (hi : i < F.tileCols) :
    ∃ t r', t < F.tiles.length ∧ R * F.tileCols + i = ((lget F.tiles t).r0 + r') * F.tileCols + (lget F.tiles t).tc ∧
      lget (lget fs.tiles t).ph r' = Ph.fin ∧ Reach (lget F.tiles t).st (lget fs.tiles t) := by
  have hinv := freach_inv h
  have hrows : lfRows F r R := by
    unfold lfRows
    rcases hR with e | e | ⟨e, hlt⟩
    · exact Or.inl e
    · right; left; have : r ≠ 0 := by omega
      simp [this]; omega
    · right; right
      have : r ≠ F.H - 1 := by omega
      simp [this]; exact e
  obtain ⟨t, r', h1, h2, h3⟩ := hinv.lf_entered r he R i hrows hi
  exact ⟨t, r', h1, h2, h3, hinv.tile_reach t h1⟩

/-- **stage_order (CDEF after LF)**: when the body of CDEF row `r` has been entered, the LF row that stores
    `lf_row_map[r+1]` (row `r+2`; the last row stores its own entry too) has finished.  If LF runs for the frame this
    implies, through LF's own wavefront, that LF rows `0 .. r+1` are complete (what CDEF row `r` reads).
    If LF is DISABLED for the frame nothing orders LF row `r`'s gate — i.e. the reconstruction of row `r` across a tile
    row boundary — before CDEF row `r`: the hypothesis `F.lf.en` is forced (recorded as a lead in checks/c09.py). -/
theorem stage_order_cdef {F : Frame} {fs : FSt} (h : FReach F fs) {r : Nat} (he : entered (lget fs.cdef.ph r)) :
    let m := r + (if r = F.H - 1 then 0 else 1)
    (lget fs.lf.ph (m + 1) = Ph.fin ∨ (m = F.H - 1 ∧ lget fs.lf.ph m = Ph.fin)) ∧
    (F.lf.en = true → 1 ≤ F.lf.W → ∀ r', r' ≤ m → cnt F.lf (lget fs.lf.ph r') = F.lf.W) := by
  have hinv := freach_inv h
  have hm := hinv.cdef_entered r he
  refine ⟨hm, ?_⟩
  intro hen hW r' hle
  rcases hm with hm | ⟨_, hm⟩
  · exact rows_below_complete hen hW hinv.lf_reach hm r' (by omega)
  · exact rows_below_complete hen hW hinv.lf_reach hm r' hle

/-- **stage_order (LR after CDEF)**: when the body of LR row `r` has been entered, CDEF row `r` has stored
    `cdef_completed_for_row_map[r]`; if CDEF runs for the frame, CDEF rows `0 .. r` are complete (every width, including
    pictures one SB wide since commit c7d082d). -/
theorem stage_order_lr {F : Frame} {fs : FSt} (h : FReach F fs) {r : Nat} (he : entered (lget fs.lr.ph r)) :
    lget fs.cdef.ph r = Ph.fin ∧
    (F.cdef.en = true → 1 ≤ F.cdef.W → ∀ r', r' ≤ r → cnt F.cdef (lget fs.cdef.ph r') = F.cdef.W) := by
  have hinv := freach_inv h
  have hf := hinv.lr_entered r he
  exact ⟨hf, fun hen hW => rows_below_complete hen hW hinv.cdef_reach hf⟩

/-- **The gap behind finding C09-lr-mt-boundary-save-race, exhibited in the model.**  A frame of one tile, one SB wide and
    three SB rows high: CDEF row 0 is entered (its gate `lf_row_map[1]` was stored by the worker of LF row 2) while LF row 1 has
    finished its columns but has NOT yet stored `lf_row_map[0]` — in C: has not yet saved the deblocked boundary lines of
    restoration stripe 0, two lines of SB row 0 that CDEF row 0 is about to overwrite.  `stage_order_cdef` is exact: it promises
    "finished" only for LF row `r+2` and "columns complete" for the rows below it. -/
def raceF : Frame := mkFrame [0, 1] [0, 3] 1 1 1 true true true 3

def raceOps : List FOp :=
  [FOp.parse 0 0, FOp.parse 0 1, FOp.parse 0 2,
   FOp.tile 0 Op.pick, FOp.tile 0 Op.pick, FOp.tile 0 Op.pick,
   FOp.tile 0 (Op.enter 0), FOp.tile 0 (Op.dec 0), FOp.tile 0 (Op.pub 0), FOp.tile 0 (Op.fin 0),
   FOp.tile 0 (Op.enter 1), FOp.tile 0 (Op.dec 1), FOp.tile 0 (Op.pub 1), FOp.tile 0 (Op.fin 1),
   FOp.tile 0 (Op.enter 2), FOp.tile 0 (Op.dec 2), FOp.tile 0 (Op.pub 2), FOp.tile 0 (Op.fin 2),
   FOp.lf Op.pick, FOp.lf Op.pick, FOp.lf Op.pick,
   FOp.lf (Op.enter 0), FOp.lf (Op.enter 1), FOp.lf (Op.enter 2),
   FOp.lf (Op.dec 0), FOp.lf (Op.pub 0), FOp.lf (Op.dec 1), FOp.lf (Op.pub 1), FOp.lf (Op.dec 2), FOp.lf (Op.pub 2),
   FOp.lf (Op.fin 2),
   FOp.cdef Op.pick, FOp.cdef (Op.enter 0)]

def raceSt : FSt := (frun raceF (initF raceF) raceOps).getD (initF raceF)

theorem cdef_before_lf_save_race :
    FReach raceF raceSt ∧ lget raceSt.cdef.ph 0 = Ph.at 0 ∧ lget raceSt.lf.ph 2 = Ph.fin ∧ lget raceSt.lf.ph 1 = Ph.tail ∧
    lget raceSt.lfMap 1 = true ∧ lget raceSt.lfMap 0 = false := by
  have e : frun raceF (initF raceF) raceOps = some raceSt := by rfl
  exact ⟨freach_of_frun FReach.init raceOps e, by decide, by decide, by decide, by decide, by decide⟩

/- FULL statement (not proved here):
     theorem frame_deadlock_free {F : Frame} (wf : FrameWF F) {fs : FSt} (h : FReach F fs) (hfin : ¬ FAllFin F fs) :
         ∃ op fs', fstep F fs op = some fs'
   where `FrameWF` says that the tiles partition the SB grid and every pool has a worker, and `FAllFin` that every row of every
   tile and of LF, CDEF, LR has stored its row map.  Missing: the converse directions of `FInv.recon_sound / lf_sound /
   cdef_sound` ("a finished row HAS stored its map entry") and the cover lemma for the tile grid, which turn "blocked at a closed
   gate" of stage k+1 into "stage k is not finished" and close the induction tile → LF → CDEF → LR.  The driver's `fwalk`
   runs random maximal schedules of the frame model on every check run and reports a frame that stops with unfinished rows. -/

/-- **frame_deadlock_free_partial**: in every reachable frame state, every tile and every filter stage that still has
    an unfinished row either has an enabled step IN THE FRAME, or its least unfinished row is spinning on a closed gate
    (tile: `sb_recon_row_parsed`; LF: the three `sb_recon_row_map` rows; CDEF: `lf_row_map`; LR:
    `cdef_completed_for_row_map`) — no stage ever waits for itself. -/
theorem frame_deadlock_free_partial {F : Frame} {fs : FSt} (h : FReach F fs) :
    (∀ t, t < F.tiles.length → 1 ≤ (lget F.tiles t).st.n → ¬ AllFin (lget F.tiles t).st (lget fs.tiles t) →
      (∃ op fs', fstep F fs (FOp.tile t op) = some fs') ∨
      (∃ r, r < (lget F.tiles t).st.H ∧ lget (lget fs.tiles t).ph r = Ph.gate ∧ lget (lget fs.parsed t) r = false ∧
        ∀ r', r' < r → lget (lget fs.tiles t).ph r' = Ph.fin)) ∧
    (1 ≤ F.lf.n → ¬ AllFin F.lf fs.lf →
      (∃ op fs', fstep F fs (FOp.lf op) = some fs') ∨
      (∃ r, r < F.lf.H ∧ lget fs.lf.ph r = Ph.gate ∧ lfGate F fs r = false ∧ ∀ r', r' < r → lget fs.lf.ph r' = Ph.fin)) ∧
    (1 ≤ F.cdef.n → ¬ AllFin F.cdef fs.cdef →
      (∃ op fs', fstep F fs (FOp.cdef op) = some fs') ∨
      (∃ r, r < F.cdef.H ∧ lget fs.cdef.ph r = Ph.gate ∧ cdefGate F fs r = false ∧
        ∀ r', r' < r → lget fs.cdef.ph r' = Ph.fin)) ∧
    (1 ≤ F.lr.n → ¬ AllFin F.lr fs.lr →
      (∃ op fs', fstep F fs (FOp.lr op) = some fs') ∨
      (∃ r, r < F.lr.H ∧ lget fs.lr.ph r = Ph.gate ∧ lrGate fs r = false ∧ ∀ r', r' < r → lget fs.lr.ph r' = Ph.fin)) := by
  have hinv := freach_inv h
  refine ⟨?_, ?_, ?_, ?_⟩
  · intro t ht hn hfin
    rcases progress (fun r => lget (lget fs.parsed t) r) (reach_inv (hinv.tile_reach t ht)) hn hfin with ⟨op, w, hw⟩ | hb
    · obtain ⟨fs', e⟩ := fstep_of_tile_step ht hw
      exact Or.inl ⟨op, fs', e⟩
    · exact Or.inr hb
  · intro hn hfin
    rcases progress (lfGate F fs) (reach_inv hinv.lf_reach) hn hfin with ⟨op, w, hw⟩ | hb
    · obtain ⟨fs', e⟩ := fstep_of_lf_step hw
      exact Or.inl ⟨op, fs', e⟩
    · exact Or.inr hb
  · intro hn hfin
    rcases progress (cdefGate F fs) (reach_inv hinv.cdef_reach) hn hfin with ⟨op, w, hw⟩ | hb
    · obtain ⟨fs', e⟩ := fstep_of_cdef_step hw
      exact Or.inl ⟨op, fs', e⟩
    · exact Or.inr hb
  · intro hn hfin
    rcases progress (lrGate fs) (reach_inv hinv.lr_reach) hn hfin with ⟨op, w, hw⟩ | hb
    · obtain ⟨fs', e⟩ := fstep_of_lr_step hw
      exact Or.inl ⟨op, fs', e⟩
    · exact Or.inr hb

/-! ## 4. schedule independence -/

/-- **dag_confluence**: for a task DAG in which task `t` reads only cells written by `deps t` and writes only its own
    cell, in EVERY reachable state of EVERY execution (any number of tasks running at once, any interleaving of the
    atomic `start` / `finish` steps) every finished task's cell holds `val t` — a value defined without reference
    to any schedule.  Hence all complete executions end with the same store. -/
theorem dag_confluence {T V : Type} [DecidableEq T] (D : Dag T V) (σ₀ : T → V) {s : DSt T V} (h : DReach D σ₀ s) :
    (∀ t, s.done t = true → s.σ t = val D σ₀ t) ∧ (∀ t, s.done t = false → s.σ t = σ₀ t) :=
  ⟨(dreach_inv h).done_val, (dreach_inv h).undone⟩

theorem dag_confluence_eq {T V : Type} [DecidableEq T] (D : Dag T V) (σ₀ : T → V) {s s' : DSt T V}
    (h : DReach D σ₀ s) (h' : DReach D σ₀ s') (hd : ∀ t, s.done t = true) (hd' : ∀ t, s'.done t = true) :
    s.σ = s'.σ := by
  funext t
  rw [(dreach_inv h).done_val t (hd t), (dreach_inv h').done_val t (hd' t)]

/-- **every wavefront execution is a DAG execution** (`decwf_safe` instantiated): under H-footprint — the processing
    of column `j` of row `r` reads, of what the stage writes, only cells of its wavefront cone (`hdeps`) and writes
    only its own cell (`Dag.footprint`) — each step of the wavefront is matched by a legal DAG step: a column never
    starts before the cells it reads are final. -/
theorem decwf_is_dag_run {s : Stage} {V : Type} {D : Dag (Nat × Nat) V} {σ₀ : Nat × Nat → V}
    (hdeps : ∀ t d, d ∈ D.deps t → inCone s.W t d = true)
    {st st' : WSt} {ds : DSt (Nat × Nat) V} {g : Nat → Bool} {op : Op}
    (hj : JReach s D σ₀ st ds) (h : step s g st op = some st') : ∃ ds', JReach s D σ₀ st' ds' := by
  obtain ⟨h1, _, h3⟩ := jreach_facts (pass_sound s) hdeps hj
  rcases sim_step (pass_sound s) D hdeps (reach_inv h1) (reach_wave (pass_sound s) h1) h3 h with ⟨hm, _⟩ | ⟨dop, ds', hm, hd, _⟩
  · exact ⟨ds, JReach.silent hj h hm⟩
  · exact ⟨ds', JReach.task hj h hm hd⟩

/-- **decwf_confluence**: under H-footprint, whatever the number of workers and the interleaving, when all rows of
    the stage are finished the cell of every superblock holds the schedule-independent value `val`; in particular
    the multi-threaded result equals the result of the same stage run by ONE worker (which processes the
    superblocks in raster order). -/
theorem decwf_confluence {s : Stage} {V : Type} {D : Dag (Nat × Nat) V} {σ₀ : Nat × Nat → V}
    (hdeps : ∀ t d, d ∈ D.deps t → inCone s.W t d = true)
    {st : WSt} {ds : DSt (Nat × Nat) V} (hj : JReach s D σ₀ st ds) (hall : AllFin s st) :
    ∀ r j, r < s.H → j < Wb s → ds.σ (r, j) = val D σ₀ (r, j) := by
  obtain ⟨_, h2, h3⟩ := jreach_facts (pass_sound s) hdeps hj
  intro r j hr hjw
  apply (dreach_inv h2).done_val
  apply (h3.done_iff r j).2
  rw [hall r hr]
  exact ⟨hr, by simpa [cnt] using hjw⟩

theorem decwf_eq_single_thread {s s1 : Stage} (h1 : s1 = { s with n := 1 })
    {V : Type} {D : Dag (Nat × Nat) V} {σ₀ : Nat × Nat → V}
    (hdeps : ∀ t d, d ∈ D.deps t → inCone s.W t d = true)
    {st st1 : WSt} {ds ds1 : DSt (Nat × Nat) V} (hj : JReach s D σ₀ st ds) (hj1 : JReach s1 D σ₀ st1 ds1)
    (hall : AllFin s st) (hall1 : AllFin s1 st1) :
    ∀ r j, r < s.H → j < Wb s → ds.σ (r, j) = ds1.σ (r, j) := by
  subst h1
  intro r j hr hjw
  rw [decwf_confluence hdeps hj hall r j hr hjw]
  exact (decwf_confluence (s := { s with n := 1 }) hdeps hj1 hall1 r j hr hjw).symm

/-! ## Non-vacuity -/

/-- a 1080p tile column: 30 x 17 SBs, 8 workers -/
def reconEx : Stage := { kind := Kind.recon, c0 := 7, W := 30, H := 17, en := true, n := 8 }
example : PassSound reconEx := pass_sound _
example : Reach reconEx (initW reconEx) := Reach.init
example : ¬ AllFin reconEx (initW reconEx) := by
  intro h; have := h 0 (by decide); revert this; decide
example : 1 ≤ reconEx.n := by decide
/-- `decwf_safe`'s step hypothesis is satisfiable: after `pick`, `enter 0` the step `dec 0` is enabled -/
example : ∃ st st', Reach reconEx st ∧ step reconEx (fun _ => true) st (Op.dec 0) = some st' := by
  have h1 : ∃ st, step reconEx (fun _ => true) (initW reconEx) Op.pick = some st := ⟨_, rfl⟩
  obtain ⟨s1, e1⟩ := h1
  have h2 : ∃ st, step reconEx (fun _ => true) s1 (Op.enter 0) = some st := by
    injection e1 with e1; subst e1; exact ⟨_, rfl⟩
  obtain ⟨s2, e2⟩ := h2
  have h3 : ∃ st, step reconEx (fun _ => true) s2 (Op.dec 0) = some st := by
    injection e1 with e1; subst e1; injection e2 with e2; subst e2; exact ⟨_, rfl⟩
  obtain ⟨s3, e3⟩ := h3
  exact ⟨s2, s3, Reach.step (Reach.step Reach.init e1) e2, e3⟩
/-- CDEF one SB wide is sound too (it was the race before the fix) -/
example : PassSound { kind := Kind.cdef, c0 := 0, W := 1, H := 4, en := true, n := 3 } := pass_sound _
/-- a frame: 2 x 2 tiles on a 5 x 4 SB picture -/
def frameEx : Frame := mkFrame [0, 3, 5] [0, 2, 4] 5 5 5 true true true 4
example : FReach frameEx (initF frameEx) := FReach.init
/-- H-footprint is satisfiable: the DAG whose tasks read exactly their four neighbours (30 columns) -/
def nbrDeps (t : Nat × Nat) : List (Nat × Nat) :=
  if t.2 < 30 then
    (if 1 ≤ t.2 then [(t.1, t.2 - 1)] else []) ++ (if 1 ≤ t.1 then [(t.1 - 1, t.2)] else []) ++
    (if 1 ≤ t.1 ∧ 1 ≤ t.2 then [(t.1 - 1, t.2 - 1)] else []) ++
    (if 1 ≤ t.1 ∧ t.2 + 1 < 30 then [(t.1 - 1, t.2 + 1)] else [])
  else []

theorem nbrDeps_mem {t d : Nat × Nat} (h : d ∈ nbrDeps t) : t.2 < 30 ∧
    ((1 ≤ t.2 ∧ d = (t.1, t.2 - 1)) ∨ (1 ≤ t.1 ∧ d = (t.1 - 1, t.2)) ∨ (1 ≤ t.1 ∧ 1 ≤ t.2 ∧ d = (t.1 - 1, t.2 - 1)) ∨
    (1 ≤ t.1 ∧ t.2 + 1 < 30 ∧ d = (t.1 - 1, t.2 + 1))) := by
  unfold nbrDeps at h
  split at h
  · rename_i hW
    refine ⟨hW, ?_⟩
    simp only [List.mem_append] at h
    rcases h with ((h | h) | h) | h
    · split at h
      · rename_i c; simp at h; exact Or.inl ⟨c, h⟩
      · simp at h
    · split at h
      · rename_i c; simp at h; exact Or.inr (Or.inl ⟨c, h⟩)
      · simp at h
    · split at h
      · rename_i c; simp at h; exact Or.inr (Or.inr (Or.inl ⟨c.1, c.2, h⟩))
      · simp at h
    · split at h
      · rename_i c; simp at h; exact Or.inr (Or.inr (Or.inr ⟨c.1, c.2, h⟩))
      · simp at h
  · simp at h

def nbrDag : Dag (Nat × Nat) Nat where
  deps := nbrDeps
  f := fun t σ => ((nbrDeps t).map σ).sum + 1
  rank := fun t => t.1 * 31 + t.2
  rank_lt := by
    intro t d hd
    obtain ⟨hW, hd⟩ := nbrDeps_mem hd
    rcases hd with ⟨h1, e⟩ | ⟨h1, e⟩ | ⟨h1, h2, e⟩ | ⟨h1, h2, e⟩ <;> subst e <;> simp only <;> omega
  footprint := by
    intro t σ σ' h
    have : (nbrDeps t).map σ = (nbrDeps t).map σ' := List.map_congr_left h
    simp only [this]

example : ∀ t d, d ∈ nbrDag.deps t → inCone reconEx.W t d = true := by
  intro t d hd
  rw [inCone_iff]
  obtain ⟨hW, hd⟩ := nbrDeps_mem hd
  rcases hd with ⟨h1, e⟩ | ⟨h1, e⟩ | ⟨h1, h2, e⟩ | ⟨h1, h2, e⟩ <;> subst e
  · exact Or.inl ⟨rfl, Nat.sub_lt (by omega) (by omega)⟩
  · simp only [cone, reconEx]; omega
  · simp only [cone, reconEx]; omega
  · simp only [cone, reconEx]; omega
example : Reach reconEx (initW reconEx) ∧ JReach reconEx nbrDag (fun _ => 0) (initW reconEx) (dinit (fun _ => 0)) :=
  ⟨Reach.init, JReach.init⟩

end C09
