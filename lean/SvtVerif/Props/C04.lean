/-
  C04 — encoding is deterministic under every thread interleaving.

  "Encoding the same input with the same configuration always produces byte-identical packets and identical
   reconstructed pictures, whatever order the encoder's internal threads are scheduled in, and the encode always
   terminates."

  The property quantifies over the schedules of ~100 k lines of pixel code; what is machine-checked here are the
  PROTOCOLS that make the schedule invisible, each for all sizes and all interleavings:
   1. `dag_confluence` …: a task graph whose hand-out logic enforces `guard` and whose kernel bodies read only cells of
      ancestor tasks and write only their own cell ends in the same store under every schedule and any number of
      workers, equal to the single-threaded topological-order program; it cannot deadlock and terminates;
   2. the EncDec-segment instance: the real `assign_enc_dec_segments` enforces exactly that guard (from C24), for every
      picture size and segment grid; the independent-task grids (ME / TF / CDEF / restoration segments) with their
      completion counter post the picture exactly once (`last_one_fires_once`);
   3. `handshake_no_lost_wakeup`: the `me_ready` condition-variable handshake cannot lose a wake-up;
   4. `reorder_inorder`, `srm_fifo` (re-exported from C22 / C23): the queues between the stages are FIFO / re-sequencing;
   5. `network_output_deterministic`, `determinism_under_footprint`: a network of stages that are deterministic
      functions of their input histories, connected by FIFO queues with back-pressure, has one possible output.
  NOT proved — hypothesis **H-footprint**: that the kernel bodies of the real encoder touch shared per-picture state
  only as the task model says (own cells, cells of completed ancestors, or mutex-protected commutative accumulators)
  and that each pipeline stage as a whole is therefore a function of its input histories.  checks/c04.py exercises
  it: every configuration is encoded under seeded schedule perturbations and with different thread counts and the
  packets and reconstructions are compared byte for byte.
-/
import SvtVerif.Props.C22
import SvtVerif.Props.C23
import SvtVerif.Props.C24
import SvtVerif.Lemmas.Wavefront
import SvtVerif.Lemmas.CondVar
import SvtVerif.Lemmas.Counter
import SvtVerif.Lemmas.Kahn

namespace C04
open Wavefront
set_option linter.unusedVariables false

/-! ## 1. Task graphs: every schedule gives the sequential result -/

/-- example graph used by the non-vacuity examples: task 0 feeds tasks 1 and 2 (a wavefront corner) -/
def exG : Dag Nat :=
  { n := 3
    guard := fun t => if t = 0 then [] else [0]
    body := fun t σ => if t = 0 then 7 else σ 0 + t }

theorem exG_footprint : Footprint exG exG.guard := by
  constructor
  · intro t d hd; exact Anc.base hd
  · intro t σ σ' h
    by_cases ht : t = 0
    · simp [exG, ht]
    · have : σ 0 = σ' 0 := h 0 (by simp [exG, ht])
      simp [exG, ht, this]

theorem exG_topo : Topo exG [0, 1, 2] := by
  refine ⟨⟨by decide, by simp, by simp [exG], by decide, by simp, by simp [exG], by decide, by simp, by simp [exG], trivial⟩, ?_⟩
  intro t ht
  have : t < 3 := ht
  simp only [List.mem_cons, List.not_mem_nil, or_false]
  omega

/-- **dag_confluence.**  Let the hand-out logic release task `t` only after every task of `guard t` has finished, and
    let every kernel body read only cells of proper ancestors of its task (and write only its own cell) —
    `Footprint`.  Then for ANY two executions — any number of worker threads, any interleaving of hand-outs and
    completions — from the same initial store: (1) they agree on the cell of every task both have finished; (2) if
    both are complete they end in the same store, cell for cell, including the cells no task owns. -/
theorem dag_confluence {V : Type} {G : Dag V} {reads : Nat → List Nat} {σ0 : Nat → V} (hf : Footprint G reads)
    {s1 s2 : St V} (h1 : Reachable G σ0 s1) (h2 : Reachable G σ0 s2) :
    (∀ t, t ∈ s1.done → t ∈ s2.done → s1.store t = s2.store t) ∧
    (Complete G s1 → Complete G s2 → s1.store = s2.store) :=
  ⟨agree hf h1 h2, confluence hf h1 h2⟩

example : ∃ s, Reachable exG (fun _ => 0) s ∧ Complete exG s := by
  obtain ⟨s, h1, h2, _⟩ := seq_result (σ0 := fun _ => 0) exG_topo
  exact ⟨s, h1, h2⟩

/-- **The parallel result is the sequential result.**  For any topological order of the tasks, the store reached by
    every complete execution (any schedule, any number of workers) equals the store computed by the single-threaded
    program that runs the kernel bodies one after the other in that order; in particular all topological orders
    give the same result. -/
theorem dag_equals_sequential {V : Type} {G : Dag V} {reads : Nat → List Nat} {σ0 : Nat → V}
    (hf : Footprint G reads) {order : List Nat} (ho : Topo G order) {s : St V} (h : Reachable G σ0 s)
    (hc : Complete G s) : s.store = seqStore G σ0 order := by
  obtain ⟨s', h', c', e'⟩ := seq_result (σ0 := σ0) ho
  rw [← e']
  exact confluence hf h h' hc c'

example : Footprint exG exG.guard ∧ Topo exG [0, 1, 2] := ⟨exG_footprint, exG_topo⟩

/-- **No deadlock, termination.**  If the dependency relation is acyclic (a rank decreases along `guard`) then
    (1) in every reachable state that is not complete some event is enabled — a worker can finish its task or a task
    can be handed out — so every terminal state is complete; (2) every execution has at most `2·n` events.  Hence
    every maximal execution is finite and complete (and `dag_confluence` applies to it). -/
theorem dag_progress {V : Type} {G : Dag V} {σ0 : Nat → V} {rank : Nat → Nat} (ha : Acyclic G rank) :
    (∀ s, Reachable G σ0 s → ¬ Complete G s → ∃ ev s', step G s ev = some s') ∧
    (∀ s, Reachable G σ0 s → Terminal G s → Complete G s) ∧
    (∀ evs s, run G (init σ0) evs = some s → evs.length ≤ 2 * G.n) := by
  refine ⟨fun s hr hn => progress ha hr hn, ?_, fun evs s h => exec_bounded h⟩
  intro s hr ht
  by_contra hn
  obtain ⟨ev, s', hs⟩ := progress ha hr hn
  rw [ht ev] at hs
  cases hs

example : Acyclic exG (fun t => t) := by
  intro t ht d hd
  by_cases h0 : t = 0
  · simp [exG, h0] at hd
  · simp [exG, h0] at hd
    subst hd
    exact ⟨by decide, Nat.pos_of_ne_zero h0⟩

/-! ## 2. EncDec segments and the independent segment grids -/

/-- **The real hand-out protocol enforces the guard.**  For every well-formed segment control block (in particular
    every block `enc_dec_segments_init` produces: `C24.init_wf`), in every state `assign_enc_dec_segments` can reach
    under any interleaving of any number of workers: a segment that has been handed out (`ph ≥ 1`) has its left
    neighbour in the row and the segment one band-count back in the previous row — the two edges counted in
    `dependency_map` — past their superblock loop (`ph ≥ 3`).  So the executions of the real protocol are executions
    of the task graph `segDag g` (start = hand-out, finish = end of the SB loop). -/
theorem encdec_guard_enforced {g : Seg.SegCtl} (hw : Seg.WF g) {st : Seg.ASt} (hr : Seg.Reachable g st) {t d : Nat}
    (hs : 1 ≤ Seg.aget st.ph t) (hd : d ∈ (segDag (V := Unit) g (fun _ _ => ())).guard t) :
    3 ≤ Seg.aget st.ph d :=
  seg_guard_holds hw hr hs hd

example : Seg.WF (Seg.initSeg 30 17 30 17 30 17) ∧
    Seg.Reachable (Seg.initSeg 30 17 30 17 30 17) (Seg.initASt (Seg.initSeg 30 17 30 17 30 17)) :=
  ⟨C24.init_wf (by constructor <;> decide) 30, Seg.Reachable.init⟩

/-- **EncDec segments are confluent.**  `dag_confluence` instantiated at the segment graph of any control block: if
    the superblock loop of a segment reads shared picture state only in cells of segments that precede it through
    the counted edges (H-footprint for EncDec; the SB-level geometry — left, top, top-left, top-right neighbour
    superblocks lie in the same or in such a segment — is `C24.seg_deps_sound`), the reconstructed picture does not
    depend on the number of EncDec threads or on their interleaving. -/
theorem encdec_confluence {V : Type} (g : Seg.SegCtl) (body : Nat → (Nat → V) → V) {reads : Nat → List Nat}
    {σ0 : Nat → V} (hf : Footprint (segDag g body) reads) {s1 s2 : St V}
    (h1 : Reachable (segDag g body) σ0 s1) (h2 : Reachable (segDag g body) σ0 s2)
    (c1 : Complete (segDag g body) s1) (c2 : Complete (segDag g body) s2) : s1.store = s2.store :=
  confluence hf h1 h2 c1 c2

/-- Superblock level (re-export of `C24.assign_safe`): when the segment of SB `(x,y)` has been handed out, each of its
    left / top / top-left / top-right neighbour SBs lies in the same segment or in a segment whose SB loop is finished. -/
theorem encdec_neighbours_ready {W H C R MR : Nat} (ok : Seg.InitOK W H C R MR) (MC : Nat)
    {st : Seg.ASt} (hr : Seg.Reachable (Seg.initSeg W H C R MC MR) st)
    {x y x' y' : Nat} (hx : x < W) (hy : y < H)
    (hn : (1 ≤ x ∧ x' = x - 1 ∧ y' = y) ∨ (1 ≤ y ∧ x' = x ∧ y' = y - 1) ∨
          (1 ≤ x ∧ 1 ≤ y ∧ x' = x - 1 ∧ y' = y - 1) ∨ (x + 1 < W ∧ 1 ≤ y ∧ x' = x + 1 ∧ y' = y - 1))
    (hs : 1 ≤ Seg.aget st.ph (Seg.segOf (Seg.initSeg W H C R MC MR) (x, y))) :
    st.err = 0 ∧
    (Seg.segOf (Seg.initSeg W H C R MC MR) (x', y') = Seg.segOf (Seg.initSeg W H C R MC MR) (x, y) ∨
     3 ≤ Seg.aget st.ph (Seg.segOf (Seg.initSeg W H C R MC MR) (x', y'))) :=
  C24.assign_safe ok MC hr hx hy hn hs

/-- Termination of the segment protocol (re-export of `C24.assign_complete` / `assign_terminates`): every maximal
    execution of the real hand-out protocol, for every accepted picture size and grid, processes every superblock, in
    at most `4·segments` atomic steps. -/
theorem encdec_terminates {W H C R MR : Nat} (ok : Seg.InitOK W H C R MR) (MC : Nat) :
    (∀ st, Seg.Reachable (Seg.initSeg W H C R MC MR) st → Seg.Terminal (Seg.initSeg W H C R MC MR) st →
      ∀ x y, x < W → y < H → Seg.aget st.ph (Seg.segOf (Seg.initSeg W H C R MC MR) (x, y)) = 4) ∧
    (∀ st st' k, Seg.Reachable (Seg.initSeg W H C R MC MR) st → Seg.Steps (Seg.initSeg W H C R MC MR) st k st' →
      k ≤ 4 * ((Seg.initSeg W H C R MC MR).segRowCount * (Seg.initSeg W H C R MC MR).segBandCount)) :=
  ⟨fun st hr ht x y hx hy => C24.assign_complete ok MC hr ht hx hy,
   fun st st' k hr h => C24.assign_terminates ok MC hr h⟩

example : Seg.InitOK 30 17 30 17 17 := by constructor <;> decide

/-- **Independent task grids** (ME / TF / CDEF / restoration segments: `guard = []`, bodies that read no other
    task's cell): any two complete executions end in the same store — every segment can be processed by any thread at
    any time. -/
theorem independent_grid_confluence {V : Type} {G : Dag V} {σ0 : Nat → V} (hg : ∀ t, G.guard t = [])
    (hb : ∀ t σ σ', G.body t σ = G.body t σ') {s1 s2 : St V} (h1 : Reachable G σ0 s1) (h2 : Reachable G σ0 s2)
    (c1 : Complete G s1) (c2 : Complete G s2) : s1.store = s2.store :=
  confluence (reads := fun _ => []) ⟨fun t d hd => (by cases hd), fun t σ σ' _ => hb t σ σ'⟩ h1 h2 c1 c2

example : ∃ G : Dag Nat, (∀ t, G.guard t = []) ∧ ∀ t σ σ', G.body t σ = G.body t σ' :=
  ⟨{ n := 4, guard := fun _ => [], body := fun t _ => t }, fun _ => rfl, fun _ _ _ => rfl⟩

/-! ## 4. The queues between the stages (re-exports) -/

/-- `reorder_inorder` (= `C22.circ_queue_inorder`): a circular reorder queue of depth `D` (picture decision, initial rate
    control, picture manager, packetization) emits `0,1,…,n−1` in order for ANY arrival order that stays within
    the window, for every stream length. -/
theorem reorder_inorder (D : Nat) (hD : 0 < D) (arrivals : List Nat) (n : Nat)
    (hperm : arrivals.Perm (List.range n)) (hwin : Reorder.Windowed D arrivals) :
    (Reorder.run D arrivals).out = List.range n ∧ (Reorder.run D arrivals).clobbered = false :=
  C22.circ_queue_inorder D hD arrivals n hperm hwin

example : Reorder.Windowed 4 [1, 0, 3, 2, 5, 4] ∧ [1, 0, 3, 2, 5, 4].Perm (List.range 6) := by decide

/-- `srm_fifo` (= `C23.srm_fifo`): under every interleaving of producers and consumers the objects handed to the
    consumers of a system-resource queue, followed by those still queued, are the posted objects in posting order;
    with one consumer fifo the consumer sees exactly the posting sequence. -/
theorem srm_fifo {s : Srm.State} (h : Srm.Reachable s) :
    (s.assigned .full).map Prod.snd ++ s.objQ .full = s.posted ∧
    (∀ f, (s.taken .full f ++ s.items .full f).Sublist s.posted) ∧
    (s.nProc .full = 1 → s.taken .full 0 ++ s.items .full 0 ++ s.objQ .full = s.posted) :=
  C23.srm_fifo h

example : ∃ s, Srm.Reachable s ∧ s.nProc .full = 1 := ⟨_, Srm.Reachable.init 2 1 1, rfl⟩

/-- `last_one_fires_once`: the completion-counter idiom of the independent segment grids — each of the `N` segment
    tasks, when finished, executes `count++; if (count == N) post the picture to the next stage` atomically (under
    the picture's mutex: EbCdefProcess.c:518-521, EbRestProcess.c:536-539, EbRateControlProcess.c:7220-7223; in a single
    collector thread: EbInitialRateControlProcess.c:352-355).  In every state reachable under any order of the tasks
    the picture has been posted at most once, it has been posted iff all `N` tasks have finished, and the poster is
    the task that finished last; in a terminal state it has been posted exactly once. -/
theorem last_one_fires_once {N : Nat} {s : Counter.State} (hN : 0 < N) (h : Counter.Reachable N s) :
    (s.fires.length ≤ 1 ∧ (s.fires.length = 1 ↔ s.count = N) ∧
      (∀ t, t ∈ s.fires → s.finished.head? = some t ∧ s.fires = [t])) ∧
    (Counter.Terminal N s → s.count = N ∧ s.fires.length = 1) :=
  ⟨Counter.last_one_fires_once hN h, fun hT => ⟨(Counter.counter_complete h hT).1, (Counter.counter_complete h hT).2 hN⟩⟩

example : ∃ s, Counter.Reachable 3 s := ⟨_, Counter.Reachable.init⟩

/-! ## 3. The `me_ready` condition-variable handshake -/

/-- **handshake_no_lost_wakeup.**  Model `Model/CondVar.lean` of `svt_set_cond_var` / `svt_wait_cond_var`
    (EbThreads.c:449-495; every pthread primitive and memory access is one atomic step; spurious wake-ups allowed), any
    number of threads `< n`, each either setting the value to `v1` or waiting for the value to differ from `v0`
    (`me_ready`: created 0, `svt_set_cond_var(&pcs->me_ready, 1)` in EbInitialRateControlProcess.c:388, waiters
    `svt_wait_cond_var(&…->me_ready, 0)` in EbRateControlProcess.c:1139).  In every reachable state, under every
    interleaving:
    (1) the value is `v0` or `v1`, and it is `v1` from the moment a setter has written it;
    (2) a waiter can be asleep with the value already changed only while a setter still holds the mutex between its
        write and its broadcast (`no_lost_wakeup_inv`) — so the broadcast reaches it;
    (3) once the value is `v1` (in particular once a setter has returned) EVERY step of EVERY thread decreases a measure
        bounded by `4·n`: every continuation has at most `4·n` steps, and when no thread can move all `n` threads have
        returned — every waiter terminates, without any fairness assumption;
    (4) as long as a setter exists the system cannot get stuck before that. -/
theorem handshake_no_lost_wakeup {role : Nat → CondVar.Role} {n : Nat} {v0 v1 : Int} {s : CondVar.State}
    (hm : CondVar.MeReady role n v0 v1) (hr : CondVar.Reachable role v0 s) :
    ((s.val = v0 ∨ s.val = v1) ∧
      (∀ t v, role t = .setter v → (s.pc t = .wrote ∨ s.pc t = .bcast ∨ s.pc t = .done) → s.val = v1)) ∧
    (∀ w i, role w = .waiter i → s.pc w = .sleeping → s.val ≠ i →
      ∃ t v, role t = .setter v ∧ s.pc t = .wrote ∧ s.owner = some t) ∧
    (s.val = v1 →
      (∀ a s', CondVar.act role s a = some s' → s'.val = v1 ∧ CondVar.mu s' n < CondVar.mu s n) ∧
      (∀ acts s', CondVar.runActs role s acts = some s' →
        s'.val = v1 ∧ acts.length + CondVar.mu s' n ≤ CondVar.mu s n ∧ acts.length ≤ 4 * n ∧
        (CondVar.Stuck role s' → ∀ t, t < n → s'.pc t = .done))) ∧
    ((∃ t v, role t = .setter v) → CondVar.Stuck role s → ∀ t, t < n → s.pc t = .done) := by
  have h := CondVar.handshake_no_lost_wakeup hm hr
  exact ⟨h.1, fun w i hw hs hv => CondVar.no_lost_wakeup_inv hr hw hs hv, h.2.1, h.2.2.2⟩

example : CondVar.MeReady CondVar.exRole 3 0 1 ∧ CondVar.Reachable CondVar.exRole 0 (CondVar.init 0) :=
  ⟨CondVar.exRole_meReady, CondVar.Reachable.init⟩

/-! ## 5. Composition: a network of deterministic stages has one possible output -/

/-- **Hypothesis H-footprint (pipeline form), explicit and named.**  The encoder, seen from outside a stage, is the
    Kahn network `N`: channel `c`'s unique producer (a pipeline stage — i.e. a kernel with its worker threads, its
    segment/task graph and its reorder queue —, or the application for the input channel) writes on `c` a sequence
    that is a prefix-monotone function `N.F c` of the sequences on the other channels.  This is what `dag_confluence`
    (+ `encdec_guard_enforced`, `last_one_fires_once`) gives for the inside of a stage under the task-level
    `Footprint` hypothesis, what `srm_fifo` gives for the queues (single consumer fifo ⇒ the consumer sees the posting
    sequence) and what `reorder_inorder` gives for stages fed by several workers.  It is NOT proved of the C code. -/
def HFootprint {M : Type} (N : Kahn.Net M) : Prop := N.Monotone

/-- **network_output_deterministic.**  For a network satisfying H-footprint, any two executions — any interleaving of
    the stages' steps, any pacing of the application, even different pool sizes (`cap`) — that complete (every
    producer has written everything its function prescribes) leave identical message sequences on every channel;
    every intermediate state of any execution holds a prefix of that result on every channel; and when every pool has
    at least one object a state in which nothing can move any more is complete (so every maximal run of a fair
    scheduler produces that result). -/
theorem network_output_deterministic {M : Type} {N₁ N₂ : Kahn.Net M} (hm : HFootprint N₁) (hF : N₁.F = N₂.F)
    {s₁ s₂ : Kahn.State M} (h₁ : Kahn.Reachable N₁ s₁) (h₂ : Kahn.Reachable N₂ s₂) :
    (Kahn.Complete N₁ s₁ → Kahn.Complete N₂ s₂ → s₁.hist = s₂.hist) ∧
    (Kahn.Complete N₂ s₂ → ∀ c, s₁.hist c <+: s₂.hist c) ∧
    ((∀ c, 0 < N₁.cap c) → (∀ op, ¬ Kahn.Enabled N₁ s₁ op) → Kahn.Complete N₁ s₁) :=
  ⟨fun c₁ c₂ => Kahn.network_output_deterministic hm hF h₁ h₂ c₁ c₂,
   fun c₂ => Kahn.prefix_of_result hm hF h₁ c₂,
   fun hcap hst => Kahn.terminal_complete hm hcap h₁ hst⟩

example : ∃ s₁ s₂, Kahn.Reachable (Kahn.pipe [1, 2, 3] 1) s₁ ∧ Kahn.Reachable (Kahn.pipe [1, 2, 3] 3) s₂ ∧
    Kahn.Complete (Kahn.pipe [1, 2, 3] 1) s₁ ∧ Kahn.Complete (Kahn.pipe [1, 2, 3] 3) s₂ ∧ s₁.hist = s₂.hist :=
  Kahn.pipe_nonvacuous
example : HFootprint (Kahn.pipe [1, 2, 3] 1) := Kahn.pipe_monotone _ _

/-- **determinism_under_footprint.**  Under H-footprint the packets and reconstructions (the sequences on the
    application-facing output channels `outs`) of every completed encode are a function of the submitted sequence
    (`inp` on the input channels `ins`) alone: two runs of the same stage functions on the same input agree on every
    output channel, whatever the thread schedules and pool sizes. -/
theorem determinism_under_footprint {M : Type} {N₁ N₂ : Kahn.Net M} (ins outs : Nat → Prop) (inp : Nat → List M)
    (hm : HFootprint N₁)
    (hin₁ : ∀ c, ins c → ∀ h, N₁.F c h = inp c) (hin₂ : ∀ c, ins c → ∀ h, N₂.F c h = inp c)
    (hstage : ∀ c, ¬ ins c → N₁.F c = N₂.F c)
    {s₁ s₂ : Kahn.State M} (h₁ : Kahn.Reachable N₁ s₁) (h₂ : Kahn.Reachable N₂ s₂)
    (c₁ : Kahn.Complete N₁ s₁) (c₂ : Kahn.Complete N₂ s₂) : ∀ c, outs c → s₁.hist c = s₂.hist c :=
  Kahn.output_indep_of_polling ins outs inp hm hin₁ hin₂ hstage h₁ h₂ c₁ c₂

/-- **H-footprint is needed.**  A stage whose output depends on WHEN it looks at its input (not a function of the
    histories) gives a network with two completed runs that differ — the shape of the schedule dependence that
    checks/c04.py reports for the rate-control modes (feedback from packetization merged in arrival order). -/
theorem footprint_needed :
    ∃ (N : Kahn.Net Nat) (s₁ s₂ : Kahn.State Nat), Kahn.Reachable N s₁ ∧ Kahn.Reachable N s₂ ∧ Kahn.Complete N s₁ ∧
      Kahn.Complete N s₂ ∧ s₁.hist 1 ≠ s₂.hist 1 :=
  Kahn.monotone_needed

end C04
