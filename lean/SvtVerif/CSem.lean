/-
  C integer semantics used by every model: values are mathematical `Int`s; each C operation that can
  wrap or that works on the two's-complement representation is an explicit function here.
  Core Lean only (no Mathlib) so that the driver executable links.
-/
namespace CSem

/-- wrap to unsigned `n`-bit. -/
def wrapU (n : Nat) (x : Int) : Int := x % (2 ^ n : Int)

/-- wrap to signed `n`-bit two's complement (what a conversion to `intN_t` does on every supported target). -/
def wrapS (n : Nat) (x : Int) : Int := (BitVec.ofInt n x).toInt

abbrev wrapU8  := wrapU 8
abbrev wrapU16 := wrapU 16
abbrev wrapU32 := wrapU 32
abbrev wrapU64 := wrapU 64
abbrev wrapI8  := wrapS 8
abbrev wrapI16 := wrapS 16
abbrev wrapI32 := wrapS 32
abbrev wrapI64 := wrapS 64

/-- `a & b` on C `int` (32-bit two's complement). -/
def and32 (a b : Int) : Int := (BitVec.ofInt 32 a &&& BitVec.ofInt 32 b).toInt
def or32  (a b : Int) : Int := (BitVec.ofInt 32 a ||| BitVec.ofInt 32 b).toInt
def xor32 (a b : Int) : Int := (BitVec.ofInt 32 a ^^^ BitVec.ofInt 32 b).toInt
/-- `a & b` on `uint32_t`. -/
def andU32 (a b : Int) : Int := ((BitVec.ofInt 32 a &&& BitVec.ofInt 32 b).toNat : Int)
def orU32 (a b : Int) : Int := ((BitVec.ofInt 32 a ||| BitVec.ofInt 32 b).toNat : Int)
def andU64 (a b : Int) : Int := ((BitVec.ofInt 64 a &&& BitVec.ofInt 64 b).toNat : Int)
def orU64 (a b : Int) : Int := ((BitVec.ofInt 64 a ||| BitVec.ofInt 64 b).toNat : Int)
def and64 (a b : Int) : Int := (BitVec.ofInt 64 a &&& BitVec.ofInt 64 b).toInt
def or64 (a b : Int) : Int := (BitVec.ofInt 64 a ||| BitVec.ofInt 64 b).toInt
/-- `a << k` on C `int`, result wrapped (UB in C when it overflows; models gcc/clang behaviour). -/
def shl32 (a : Int) (k : Int) : Int := wrapS 32 (a * 2 ^ k.toNat)
def shlU32 (a : Int) (k : Int) : Int := wrapU 32 (a * 2 ^ k.toNat)
/-- `a << k` before the wrap to the (at most 64-bit) result type, for a *variable* count: the exponent is capped at 64.
    After any `wrapU n`/`wrapS n` with `n ≤ 64` this equals `a * 2 ^ k.toNat` (`shlRaw_wrapU`, `shlRaw_wrapS` in
    Lemmas/Bits.lean); the cap only keeps the executable model from materialising `2 ^ (2^32)` on garbage counts. -/
def shlRaw (a : Int) (k : Int) : Int := a * 2 ^ (min k.toNat 64)
/-- arithmetic `a >> k` on C `int`. -/
def shr (a : Int) (k : Int) : Int := a / 2 ^ k.toNat   -- Int `/` is floor for positive divisor (Int.div rounds toward -inf with `/`? see lemma)
/-- C division truncates toward zero. -/
def cdiv (a b : Int) : Int := Int.tdiv a b
def cmod (a b : Int) : Int := Int.tmod a b

/-- `for (i = 0; i < n; ++i) dst[i] = src[i];` on in-bounds indices (out-of-bounds ones are tracked separately) -/
def copyPrefix (n : Int) (src dst : List Int) : List Int :=
  (List.range n.toNat).foldl (fun d i => d.set i (src.getD i 0)) dst

/-- value of an n-bit unsigned / signed object whose bytes are all `b` (memset fill) -/
def fillU (n : Nat) (b : Int) : Int := (List.range (n / 8)).foldl (fun acc _ => acc * 256 + (b % 256)) 0
def fillS (n : Nat) (b : Int) : Int := wrapS n (fillU n b)

def clip3 (lo hi x : Int) : Int := if x < lo then lo else if x > hi then hi else x
def cmin (a b : Int) : Int := if a < b then a else b
def cmax (a b : Int) : Int := if a > b then a else b
def b2i (b : Bool) : Int := if b then 1 else 0
def i2b (x : Int) : Bool := x != 0

end CSem
