-- Root of the `SvtVerif` library: everything that `lake build` checks.
import SvtVerif.CSem
import SvtVerif.Lemmas.Bits
import SvtVerif.Gen.RelDist
import SvtVerif.Gen.Config
import SvtVerif.Gen.QTable
import SvtVerif.Lemmas.Reorder
import SvtVerif.Props.C02
import SvtVerif.Props.C03
import SvtVerif.Props.C12
import SvtVerif.Props.C13
import SvtVerif.Props.C18
import SvtVerif.Props.C19
import SvtVerif.Props.C22
import SvtVerif.Props.C23
import SvtVerif.Props.C24
import SvtVerif.Props.C25
