-- Root of the `SvtVerif` library: everything that `lake build` checks.
import SvtVerif.CSem
import SvtVerif.Lemmas.Bits
import SvtVerif.Gen.RelDist
import SvtVerif.Props.C22
