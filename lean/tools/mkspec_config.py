# one-off helper that lays out the hand-written specification table as Lean text (the table below IS the spec)
import re
tri = lambda f: ("c.%s = 0 ∨ c.%s = 1 ∨ c.%s = -1" % (f, f, f), "simp [rejN] <;> omega")
le = lambda f, k: ("c.%s ≤ %d" % (f, k), "simp [rejN]")
rng = lambda f, lo, hi: ("%d ≤ c.%s ∧ c.%s ≤ %d" % (lo, f, f, hi), "simp [rejN] <;> omega")
code = lambda: ("rejN s c = false", "rfl")
T = {
 0: le("enc_mode", 8), 1: le("ext_block_flag", 1),
 2: ("64 ≤ c.source_width % 65536", "simp only [rejN, wrapU]; norm_num"),
 3: ("64 ≤ c.source_height % 65536", "simp only [rejN, wrapU]; norm_num"),
 4: ("True", "simp [rejN]"),
 5: ("¬ (c.source_width % 65536 % 8 ≠ 0 ∧ c.compressed_ten_bit_format = 1)", "have h : (0:Int) ≤ c.source_width % 65536 := Int.emod_nonneg _ (by decide)\n  simp [rejN, wrapU, cmod, tmod_nonneg_eq _ _ h]"),
 6: ("c.source_width % 65536 % 2 = 0", "have h : (0:Int) ≤ c.source_width % 65536 := Int.emod_nonneg _ (by decide)\n  simp [rejN, wrapU, cmod, tmod_nonneg_eq _ _ h]"),
 7: ("c.source_height % 65536 % 2 = 0", "have h : (0:Int) ≤ c.source_height % 65536 := Int.emod_nonneg _ (by decide)\n  simp [rejN, wrapU, cmod, tmod_nonneg_eq _ _ h]"),
 8: ("c.source_width % 65536 ≤ 4096", "simp only [rejN, wrapU]; norm_num"),
 9: ("c.source_height % 65536 ≤ 2160", "simp only [rejN, wrapU]; norm_num"),
 10: le("qp", 63),
 11: ("(if c.enable_manual_pred_struct ≠ 0 then True else c.hierarchical_levels ≤ 5)", "simp only [rejN]; split_ifs <;> simp_all <;> omega"),
 12: code(), 13: code(),
 14: rng("intra_refresh_type", 1, 2),
 15: le("disable_dlf_flag", 1), 16: le("use_default_me_hme", 1), 17: le("enable_hme_flag", 1),
 18: le("enable_hme_level0_flag", 1), 19: le("enable_hme_level1_flag", 1), 20: le("enable_hme_level2_flag", 1),
 21: ("c.search_area_width ≤ 480 ∧ c.search_area_width ≠ 0", "simp [rejN]"),
 22: ("c.search_area_height ≤ 480 ∧ c.search_area_height ≠ 0", "simp [rejN]"),
 23: ("c.rate_control_mode ≤ 1 ∨ (c.rc_firstpass_stats_out = 0 ∧ c.rc_twopass_stats_in_buf = 0)", "simp [rejN] <;> omega"),
 24: ("c.enable_hme_flag ≠ 0 → (c.number_hme_search_region_in_width ≤ 2 ∧ c.number_hme_search_region_in_width ≠ 0)", "simp [rejN] <;> tauto"),
 25: ("c.enable_hme_flag ≠ 0 → (c.number_hme_search_region_in_height ≤ 2 ∧ c.number_hme_search_region_in_height ≠ 0)", "simp [rejN] <;> tauto"),
 26: ("c.enable_hme_flag ≠ 0 → (c.hme_level0_total_search_area_height ≤ 480 ∧ c.hme_level0_total_search_area_height ≠ 0)", "simp [rejN] <;> tauto"),
 27: ("c.enable_hme_flag ≠ 0 → (c.hme_level0_total_search_area_width ≤ 480 ∧ c.hme_level0_total_search_area_width ≠ 0)", "simp [rejN] <;> tauto"),
 28: code(), 29: code(), 30: code(), 31: code(), 32: code(), 33: code(),
 34: le("profile", 2),
 35: code(), 36: code(),
 37: le("rate_control_mode", 2),
 38: code(), 39: code(),
 40: ("c.tile_rows % 4294967296 ≤ 6 ∧ c.tile_columns % 4294967296 ≤ 6", "simp only [rejN, wrapU]; norm_num"),
 41: code(),
 42: le("unrestricted_motion_vector", 1),
 43: ("c.scene_change_detection = 0", "simp [rejN]"),
 44: ("(if c.rate_control_mode ≠ 0 then c.max_qp_allowed ≤ 63 ∧ c.min_qp_allowed < 63 ∧ c.min_qp_allowed ≤ c.max_qp_allowed else True)", "simp only [rejN]; split_ifs <;> simp_all <;> omega"),
 45: le("stat_report", 1), 46: le("high_dynamic_range_input", 1), 47: le("screen_content_mode", 2),
 48: rng("intrabc_mode", -1, 3),
 49: ("c.intrabc_mode = -1 ∨ c.screen_content_mode = 1", "simp [rejN] <;> tauto"),
 50: le("enable_adaptive_quantization", 2),
 51: ("c.encoder_bit_depth = 8 ∨ c.encoder_bit_depth = 10", "simp [rejN] <;> tauto"),
 52: ("¬ ((c.profile = 0 ∨ c.profile = 1) ∧ 10 < c.encoder_bit_depth)", "simp [rejN]"),
 53: ("c.encoder_color_format = 0 ∨ c.encoder_color_format = 1", "simp only [rejN, wrapU]; split_ifs <;> simp_all"),
 54: code(), 55: code(), 56: code(),
 57: ("c.compressed_ten_bit_format = 0", "simp [rejN]"),
 58: le("speed_control_flag", 1),
 59: code(),
 60: ("c.target_socket = -1 ∨ c.target_socket = 0 ∨ c.target_socket = 1", "simp [rejN] <;> omega"),
 61: le("altref_strength", 6), 62: le("altref_nframes", 13),
 63: tri("enable_warped_motion"),
 64: ("c.enable_global_motion = 0 ∨ c.enable_global_motion = 1", "simp [rejN] <;> omega"),
 65: rng("obmc_level", -1, 3), 66: rng("filter_intra_level", -1, 1),
 67: tri("enable_intra_edge_filter"),
 68: ("1 < c.logical_processors ∨ c.pic_based_rate_est = 0 ∨ c.pic_based_rate_est = 1 ∨ c.pic_based_rate_est = -1", "simp only [rejN]; split_ifs <;> simp_all <;> omega"),
 69: code(),
 70: rng("palette_level", -1, 6), 71: tri("rdoq_level"), 72: rng("set_chroma_mode", -1, 3), 73: tri("disable_cfl_flag"),
 74: rng("cdef_level", -1, 4), 75: tri("enable_restoration_filtering"), 76: rng("sg_filter_mode", -1, 4), 77: rng("wn_filter_mode", -1, 3),
 78: rng("pred_me", -1, 5), 79: rng("bipred_3x3_inject", -1, 2), 80: rng("compound_level", -1, 2),
 81: tri("intra_angle_delta"), 82: tri("inter_intra_compound"), 83: tri("enable_paeth"), 84: tri("enable_smooth"), 85: tri("enable_mfmv"),
 86: tri("enable_redundant_blk"), 87: tri("spatial_sse_full_loop_level"), 88: tri("over_bndry_blk"), 89: tri("new_nearest_comb_inject"),
 90: tri("nsq_table"), 91: tri("frame_end_cdf_update"),
 92: ("c.enable_manual_pred_struct = 0 ∨ s.manual_pred_struct_rejected = 0", "simp [rejN] <;> tauto"),
 93: le("superres_mode", 2),
 94: ("c.superres_mode ≤ 0 ∨ (c.rc_twopass_stats_in_sz = 0 ∧ c.rc_firstpass_stats_out = 0)", "simp [rejN] <;> omega"),
 95: le("superres_qthres", 63), 96: rng("superres_kf_denom", 8, 16), 97: rng("superres_denom", 8, 16),
}
labels = {}
src = open('/verif/lean/SvtVerif/Gen/Config.lean').read()
for m in re.finditer(r'/-- fires ⇔ `(.*?)` -/\ndef rej(\d+) ', src, re.S):
    labels[int(m.group(2))] = m.group(1)
N = len(labels)
assert set(T) == set(range(N)), (N, sorted(set(range(N)) - set(T)))
spec = ["""/-
  HAND-WRITTEN specification of the domain accepted by svt_av1_enc_set_parameter, one conjunct per
  validation rule (numbered as the rules appear in verify_settings).  Sources: Docs/svt-av1_encoder_user_guide.md
  (parameter tables) and Source/API/EbSvtAv1Enc.h member comments; where code and documentation disagree the
  conjunct states what the CODE enforces and the disagreement is listed in `Deviations` below (known findings F10).
  Conjuncts marked `code-defined` have no independent documented formula (derived quantities such as the
  default intra period / look-ahead, the HME area sums, the effective frame rate): they are stated through the
  generated term itself and are therefore NOT independently specified.
-/
import SvtVerif.Gen.Config
namespace Spec.ConfigDomain
open Gen.Config

structure CodeDomain (s : Scs) (c : Cfg) : Prop where
"""]
for i in range(N):
    p, _ = T[i]
    cd = "   (code-defined)" if p == "rejN s c = false" else ""
    spec.append("  /-- %s%s -/\n  d%d : %s\n" % (labels[i].replace("-/", "- /")[:100], cd, i, p.replace("rejN", "rej%d" % i)))
spec.append("\n/-- executable form of the same conjuncts (used by the driver to evaluate the specification on concrete inputs) -/\ndef codeDomainChecks : List (Scs → Cfg → Bool) := [\n")
spec.append(",\n".join("  fun s c => decide (%s)" % T[i][0].replace("rejN", "rej%d" % i) for i in range(N)))
spec.append("]\n\ndef codeDomainB (s : Scs) (c : Cfg) : Bool := codeDomainChecks.all (fun p => p s c)\n")
spec.append("\nend Spec.ConfigDomain\n")
open('/verif/lean/SvtVerif/Spec/ConfigDomain.lean', 'w').write("".join(spec))
lem = ["""/- One lemma per validation rule: the generated rejecting condition is false exactly when the hand-written
   conjunct of `Spec.ConfigDomain.CodeDomain` holds. -/
import SvtVerif.Spec.ConfigDomain
import Mathlib.Tactic.Linarith
import Mathlib.Tactic.Tauto
import Mathlib.Tactic.NormNum
namespace Lemmas.Config
open Gen.Config CSem
set_option linter.unusedSimpArgs false
set_option linter.unusedTactic false
set_option linter.unreachableTactic false

theorem tmod_nonneg_eq (a b : Int) (ha : 0 ≤ a) : a.tmod b = a % b := by
  rw [Int.tmod_eq_emod_of_nonneg ha]

"""]
for i in range(N):
    p, t = T[i]
    lem.append("theorem rej%d_iff (s : Scs) (c : Cfg) : rej%d s c = false ↔ (%s) := by\n  %s\n\n" % (
        i, i, p.replace("rejN", "rej%d" % i), "exact Iff.rfl" if t == "rfl" else t.replace("rejN", "rej%d" % i)))
lem.append("end Lemmas.Config\n")
open('/verif/lean/SvtVerif/Lemmas/Config.lean', 'w').write("".join(lem))
print(N)

# ---- Props/C12.lean bulk part: the conjunction <-> structure proof (mechanical, not specification)
names = ["h%d" % i for i in range(N)]
bulk = []
bulk.append("theorem accepts_iff_all_rules (s : Scs) (c : Cfg) :\n    setParameterAccepts s c = true ↔ (%s) := by\n  simp only [setParameterAccepts, rejectChecks, List.all_cons, List.all_nil, Bool.and_true, Bool.and_eq_true, Bool.not_eq_true']\n\n"
            % " ∧ ".join("rej%d s c = false" % i for i in range(N)))
bulk.append("theorem accept_iff_codeDomain_aux (s : Scs) (c : Cfg) : setParameterAccepts s c = true ↔ Spec.ConfigDomain.CodeDomain s c := by\n  rw [accepts_iff_all_rules]\n  constructor\n  · rintro ⟨%s⟩\n    exact ⟨%s⟩\n  · intro h\n    exact ⟨%s⟩\n\n"
            % (", ".join(names), ", ".join("(rej%d_iff s c).1 h%d" % (i, i) for i in range(N)),
               ", ".join("(rej%d_iff s c).2 h.d%d" % (i, i) for i in range(N))))
bulk.append("theorem codeDomainB_iff (s : Scs) (c : Cfg) : Spec.ConfigDomain.codeDomainB s c = true ↔ Spec.ConfigDomain.CodeDomain s c := by\n  simp only [Spec.ConfigDomain.codeDomainB, Spec.ConfigDomain.codeDomainChecks, List.all_cons, List.all_nil, Bool.and_true, Bool.and_eq_true, decide_eq_true_eq]\n  constructor\n  · rintro ⟨%s⟩\n    exact ⟨%s⟩\n  · intro h\n    exact ⟨%s⟩\n\n"
            % (", ".join(names), ", ".join(names), ", ".join("h.d%d" % i for i in range(N))))
open('/verif/lean/SvtVerif/Lemmas/ConfigAll.lean', 'w').write(
    "/- mechanical glue: all %d rules together (generated layout by tools/mkspec_config.py, checked by Lean) -/\nimport SvtVerif.Lemmas.Config\nnamespace Lemmas.Config\nopen Gen.Config\nset_option maxRecDepth 4000\n\n" % N + "".join(bulk) + "end Lemmas.Config\n")

# ---- glue for the defaults theorems (C13): rules that do not read the picture size are closed by evaluation
size_rules = [2, 3, 5, 6, 7, 8, 9]
g = ["/- mechanical glue for C13 (layout generated by tools/mkspec_config.py, checked by Lean) -/\nimport SvtVerif.Lemmas.ConfigAll\nnamespace Lemmas.Config\nopen Gen.Config CSem\nset_option maxRecDepth 8000\n\n",
     "/-- the library defaults (what svt_av1_enc_init_handle writes), with the two members every application must set -/\ndef dflt : Cfg := initParam {}\ndef dfltWH (w h : Int) : Cfg := { dflt with source_width := w, source_height := h }\n\n",
     "theorem set2 (l : List Int) (hl : l.length = 2) (a b : Int) : (l.set 0 a).set 1 b = [a, b] := by\n  match l, hl with\n  | [x, y], _ => rfl\n\n"]
g.append("theorem rules_size_free (w h : Int) :\n    %s := by\n  refine ⟨%s⟩\n\n" % (
    " ∧\n    ".join("rej%d {} (dfltWH w h) = rej%d {} (dfltWH 64 64)" % (i, i) for i in range(N) if i not in size_rules),
    ", ".join("rfl" for i in range(N) if i not in size_rules)))
g.append("theorem rules_size_free_hold :\n    %s := by\n  refine ⟨%s⟩\n\n" % (" ∧\n    ".join("rej%d {} (dfltWH 64 64) = false" % i for i in range(N) if i not in size_rules),
    ", ".join("by decide" for i in range(N) if i not in size_rules)))
g.append("end Lemmas.Config\n")
open('/verif/lean/SvtVerif/Lemmas/ConfigDefaults.lean', 'w').write("".join(g))
